#!/bin/sh
# usage: bin/check.sh <ID> [quick|thorough]
exec python3 "$(dirname "$0")/vcheck.py" check "$@"
