#!/usr/bin/env python3
"""Emits the markdown tables of DESIGN.md section 9 from seeded/*/meta.json and mutants/results.json."""
import glob, json, os, re
V = os.path.dirname(os.path.dirname(os.path.abspath(__file__)))
rows = []
for d in sorted(glob.glob(os.path.join(V, "seeded", "*-*"))):
    mp = os.path.join(d, "meta.json")
    if not os.path.exists(mp):
        continue
    m = json.load(open(mp))
    name = os.path.basename(d)
    notes = ""
    np_ = os.path.join(d, "notes.md")
    if os.path.exists(np_):
        txt = open(np_).read()
        # first non-heading line as a one-line description
        for line in txt.splitlines():
            line = line.strip()
            if line and not line.startswith("#") and len(line) > 20:
                notes = re.sub(r"[`*|]", "", line)[:170]
                break
    # what the change needs in order to manifest: meta.needs, else the author's own sentence
    needs = m.get("needs", "")
    if not needs and os.path.exists(np_):
        lines = open(np_).read().splitlines()
        for k, line in enumerate(lines):
            if re.search(r"need(ed|s)?\b.*(manifest|see it|trigger)|what (it|is) need|\*\*trigger|^- \*\*what it needs|needed to|what is needed|trigger:", line, re.I):
                txt2 = " ".join(l.strip() for l in lines[k:k + 3])
                txt2 = re.sub(r"[`*|#]", "", txt2)
                txt2 = re.sub(r"^[\s\-]*(what is needed( to manifest| to see it)?|needed to manifest|what it needs( to manifest)?|what is needed|needed|trigger|what it needs)[\s:.\-]*", "", txt2, flags=re.I)
                needs = txt2.strip()[:230]
                break
    if not needs:
        needs = notes
    conf = m.get("confirmation", {})
    res = dict(m.get("preliminary_results", {}))
    res.update(m.get("check_results", {}))  # the run with the patch applied to /repo itself wins
    via = "/repo" if m.get("check_results") else "worktree"
    caught = [k for k, v in res.items() if v.get("exit") == 1 and v.get("violations")]
    missed = [k for k, v in res.items() if v.get("exit") == 0]
    how = ""
    for k in caught:
        det = res[k].get("detail") or [""]
        how = re.sub(r"[|]", "/", det[0].strip())[:110]
        break
    rows.append((name, "yes" if conf.get("confirmed") else "NO", (", ".join(caught) + " (" + via + ")") if caught else "-", ", ".join(missed) or "-", needs, how, m.get("remark", "")))
print("| change | confirmed (suite passes, demo fails) | caught by | passed (missed) | what it needs to manifest | first report | remark |")
print("|---|---|---|---|---|---|---|")
for r in rows:
    print("| " + " | ".join(r) + " |")
rp = os.path.join(V, "mutants", "results.json")
if os.path.exists(rp):
    res = json.load(open(rp))
    print()
    print("| mutant | property | change | result (quick tier) |")
    print("|---|---|---|---|")
    for k in sorted(res):
        v = res[k]
        print("| %s | %s | %s | %s |" % (k, v["prop"], v["what"], v["status"]))
    killed = sum(1 for v in res.values() if v["status"] == "killed")
    print()
    print("%d of %d hand-made mutants killed by their property's quick check." % (killed, len(res)))
