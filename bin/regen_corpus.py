#!/usr/bin/env python3
"""Regenerate the regression corpus of FIXED findings.

A corpus file is a byte string that the decoders of engine/gen.hpp turn into a case; when the
decoders change (new value classes, other ranges) an old file decodes into a different case and
silently stops aiming at the defect it was kept for.  This script re-creates every file from the
defect itself: for each fixed finding of known_findings.json it re-introduces the defect in a
scratch worktree of /repo (reverse-applies the 'fix:' commit), runs the property's quick check
against that tree (VERIF_REPO), takes the shrunk failing input the check reports, verifies that the
input PASSES on the repaired tree and stores it as corpus/<ID>/<name>.  Nothing in /repo is touched;
worktrees are removed afterwards.

usage: regen_corpus.py [D3 D4 ...]      (default: every fixed finding)
"""
import json
import os
import shutil
import subprocess
import sys

VERIF = os.path.dirname(os.path.dirname(os.path.abspath(__file__)))
REPO = "/repo"

# defect -> (fix commit, [(property, corpus file name)])
PLAN = {
    "D1": ("a9e9093", [("C17", "d1-filter-at-end.bin"), ("C08", "d1-filter-at-end.bin")]),
    "D2": ("f641e3a", [("C17", "d2-reverse-iteration.bin")]),
    "D3": ("2b95f64", [("C01", "d3-flat-zero-pflood-single.bin"), ("C04", "d3-subnormal-slope.bin")]),
    "D4": ("8373cde", [("C05", "d4-underflowing-weights.bin"), ("C03", "d4-nan-accumulation.bin")]),
    "D5": ("9558397", [("C09", "d5-pflood-base-level-order.bin")]),
    "D6": ("1012e9a", [("C09", "d6-basin-method-change-ignored.bin")]),
    "D7": ("610ef2c", [("C11", "d7-lost-wakeup.bin")]),
    "D8": ("45ec929", [("C11", "d8-relaxed-handoff.bin")]),
    "D9": ("958fe67", [("C10", "d9-shared-scratch-buffer.bin")]),
    "D10": ("c13542e", [("C12", "d10-n-below-one-on-multi.bin")]),
    "D11": ("606d664", [("C13", "d11-newton-one-sided.bin")]),
    "D12": ("9d94487", [("C16", "d12-snapshot-tables.bin")]),
    "D14": ("422472b", [("C01", "d14-pocket-carve-hang.bin")]),
    "D17": ("fbd7db9", [("C12", "d17-rejected-exponent-kept.bin")]),
    "D16": ("dcb39cc", [("C12", "d16-newton-derivative-overflow.bin"), ("C13", "d16-newton-derivative-overflow.bin")]),
    "D15": ("7cb2990", [("C01", "d15-masked-base-level-pflood.bin"), ("C02", "d15-masked-base-level-pflood.bin")]),
}


# defects whose fix commit no longer reverse-applies: (file, repaired text, defective text)
MANUAL = {
    "D10": ("include/fastscapelib/eroders/spl.hpp", "std::fabs(value - 1) <= std::numeric_limits<double>::epsilon()", "std::fabs(value) - 1 <= std::numeric_limits<double>::epsilon()"),
}


def sh(cmd, cwd=None, env=None, timeout=3600):
    r = subprocess.run(cmd, shell=True, cwd=cwd, env=env, stdout=subprocess.PIPE, stderr=subprocess.STDOUT, text=True, errors="replace", timeout=timeout)
    return r.returncode, r.stdout


def regen_known():
    """Known (unrepaired) findings: search /repo itself without the matcher until a failure tagged
    with the finding's id shows up; its shrunk input becomes the finding's replay file."""
    kf = json.load(open(os.path.join(VERIF, "known_findings.json")))["findings"]
    for k in kf:
        if k.get("status") != "known":
            continue
        pid, tag = k["property"], "[" + k["matcher"] + "]"
        sys.path.insert(0, os.path.join(VERIF, "bin"))
        import vcheck
        binary = vcheck.build(pid, quiet=True)
        cfg = vcheck.conf(pid)["quick"]
        for seed in range(1, 40):
            out = "/tmp/regen_known.json"
            subprocess.run([binary, "--rc", "--seed", str(seed), "--n", "3000", "--scale", str(cfg["scale"]), "--max-size", "100", "--size-arg", str(cfg.get("arg", 0)),
                            "--case-timeout", "30", "--out", out], stdout=subprocess.DEVNULL, stderr=subprocess.DEVNULL, env=vcheck.env_for_run())
            try:
                v = json.load(open(out)).get("violation")
            except Exception:
                v = None
            if v and tag in v.get("kind", ""):
                with open(os.path.join(VERIF, k["replay"]), "wb") as f:
                    f.write(bytes.fromhex(v["bytes_hex"]))
                print("%s ok %s <- %s | %s" % (k["id"], k["replay"], v["detail"][:160], v["desc"][:200]), flush=True)
                break
        else:
            print("%s: NO failing input found without the matcher" % k["id"], flush=True)


def main():
    if sys.argv[1:] == ["known"]:
        regen_known()
        return 0
    todo = sys.argv[1:] or list(PLAN)
    report = {}
    for d in todo:
        commit, targets = PLAN[d]
        wt = "/tmp/regen_%s" % d
        sh("git -C %s worktree remove --force %s" % (REPO, wt))
        shutil.rmtree(wt, ignore_errors=True)
        rc, o = sh("git -C %s worktree add -q --detach %s HEAD" % (REPO, wt))
        try:
            rc, o = sh("git -C %s show %s -- include | git apply -R" % (REPO, commit), cwd=wt)
            if rc != 0 and d in MANUAL:
                # later repairs rewrote the same lines: re-introduce the defect by hand
                path, old, new = MANUAL[d]
                fp = os.path.join(wt, path)
                txt = open(fp).read()
                if old in txt:
                    open(fp, "w").write(txt.replace(old, new, 1))
                    rc = 0
            if rc != 0:
                report[d] = "reverse patch does not apply: " + o[-300:]
                print(d, report[d])
                continue
            for pid, name in targets:
                got = None
                for vseed in ("1", "2", "3", "4", "5", "6"):
                    env = dict(os.environ, VERIF_REPO=wt, VERIF_EVIDENCE_DIR="/tmp/verif_evidence_scratch", VERIF_SEED=vseed)
                    rc, o = sh("bin/check.sh %s quick" % pid, cwd=VERIF, env=env)
                    viol = [l for l in o.splitlines() if l.startswith("VIOLATION")]
                    for l in viol:
                        p = l.split("replay=", 1)[1].strip()
                        if not os.path.exists(p) or "/corpus/" in p or p.endswith(".json"):
                            continue
                        # must pass on the repaired tree (/repo)
                        rc2, o2 = sh("python3 bin/vcheck.py replay %s %s" % (pid, p), cwd=VERIF)
                        if rc2 == 0:
                            got = p
                            break
                    if got:
                        break
                key = "%s/%s" % (d, pid)
                if got:
                    os.makedirs(os.path.join(VERIF, "corpus", pid), exist_ok=True)
                    dst = os.path.join(VERIF, "corpus", pid, name)
                    shutil.copy(got, dst)
                    case = [l for l in o.splitlines() if l.startswith("  ")]
                    report[key] = "ok %s <- %s" % (dst, (case[0].strip()[:200] if case else ""))
                else:
                    report[key] = "NO fresh failing input (exit %d, %d VIOLATION lines): %s" % (rc, len(viol), " / ".join(v[:160] for v in viol[:2]))
                print(key, report[key], flush=True)
        finally:
            sh("git -C %s worktree remove --force %s" % (REPO, wt))
            shutil.rmtree(wt, ignore_errors=True)
    json.dump(report, open("/tmp/regen_corpus_report.json", "w"), indent=1)
    if not sys.argv[1:]:
        regen_known()
    return 0


if __name__ == "__main__":
    sys.exit(main())
