#!/usr/bin/env python3
"""Confirm a seeded change and run the checks against it.

usage: seedtest.py <src_dir> <PROPERTY_ID> <X> [--checks C01,C08] [--tier quick] [--skip-confirm]

<src_dir> holds X.patch, X_demo.cpp, X_notes.md (written by an independent sub-agent).
1. confirmation in a scratch worktree of /repo (outside /repo and /verif, removed afterwards):
   the patch applies, the library's own test suite still passes, the demonstration program
   passes on the unchanged tree and fails with the patch;
2. the patch is applied to /repo (git apply), the listed checks are run, the patch is undone
   (git checkout -- .) straight afterwards;
3. everything is recorded under /verif/seeded/<ID>-<X>/ (patch.diff, demo.cpp, notes.md, meta.json).
"""
import json
import os
import shutil
import subprocess
import sys
import time

VERIF = os.path.dirname(os.path.dirname(os.path.abspath(__file__)))
REPO = "/repo"


def sh(cmd, cwd=None, timeout=3600, env=None):
    r = subprocess.run(cmd, shell=True, cwd=cwd, stdout=subprocess.PIPE, stderr=subprocess.STDOUT, text=True, errors="replace", timeout=timeout, env=env)
    return r.returncode, r.stdout


def main():
    src, pid, x = sys.argv[1], sys.argv[2], sys.argv[3]
    checks = [pid]
    tier = "quick"
    skip_confirm = False
    use_worktree = False
    a = sys.argv[4:]
    while a:
        if a[0] == "--checks":
            checks = a[1].split(",")
            a = a[2:]
        elif a[0] == "--tier":
            tier = a[1]
            a = a[2:]
        elif a[0] == "--skip-confirm":
            skip_confirm = True
            a = a[1:]
        elif a[0] == "--worktree":
            # preliminary run: patch a scratch worktree and point the checks at it through
            # VERIF_REPO instead of patching /repo (used while a long run needs /repo untouched);
            # recorded under "preliminary_results", the official run is repeated later
            use_worktree = True
            a = a[1:]
        else:
            a = a[1:]
    patch = os.path.join(src, x + ".patch")
    demo = os.path.join(src, x + "_demo.cpp")
    notes = os.path.join(src, x + "_notes.md")
    out = os.path.join(VERIF, "seeded", "%s-%s" % (pid, x))
    os.makedirs(out, exist_ok=True)
    meta_path = os.path.join(out, "meta.json")
    meta = json.load(open(meta_path)) if os.path.exists(meta_path) else {}
    meta.update({"property": pid, "change": x, "source": "independent sub-agent given only the property text and a scratch worktree"})

    # the working tree of /repo must be clean before and after
    rc, o = sh("git -C %s status --porcelain --untracked-files=no" % REPO)
    if o.strip() and "--worktree" not in sys.argv:
        print("REFUSING: /repo has uncommitted changes:\n" + o)
        return 2

    if not skip_confirm:
        wt = "/tmp/seedconfirm_%s_%s" % (pid, x)
        sh("git -C %s worktree remove --force %s" % (REPO, wt))
        rc, o = sh("git -C %s worktree add -q %s HEAD" % (REPO, wt))
        conf = {}
        try:
            # demo on the unchanged tree
            rc, o = sh("clang++ -std=c++17 -O1 -I%s/include %s -o %s/demo_clean -pthread && %s/demo_clean" % (wt, demo, wt, wt), timeout=900)
            conf["demo_unchanged_exit"] = rc
            conf["demo_unchanged_tail"] = o[-600:]
            rc, o = sh("git apply %s" % patch, cwd=wt)
            conf["patch_applies"] = rc == 0
            if rc != 0:
                conf["apply_output"] = o[-1000:]
            rc, o = sh("clang++ -std=c++17 -O1 -I%s/include %s -o %s/demo_patched -pthread && %s/demo_patched" % (wt, demo, wt, wt), timeout=900)
            conf["demo_patched_exit"] = rc
            conf["demo_patched_tail"] = o[-600:]
            rc, o = sh("cmake -G Ninja -S . -B _build -DFS_BUILD_TESTS=ON -DCMAKE_BUILD_TYPE=RelWithDebInfo -DCMAKE_CXX_FLAGS=-Wno-error "
                       "-DGTest_DIR=/root/miniconda/lib/cmake/GTest >/dev/null && cmake --build _build -j8 2>&1 | tail -3 && ctest --test-dir _build -j8 2>&1 | tail -4",
                       cwd=wt, timeout=3000)
            conf["suite_tail"] = o[-500:]
            conf["suite_passes_with_patch"] = "100% tests passed" in o
        finally:
            sh("git -C %s worktree remove --force %s" % (REPO, wt))
            shutil.rmtree(wt, ignore_errors=True)
        conf["confirmed"] = bool(conf.get("patch_applies") and conf.get("suite_passes_with_patch") and conf.get("demo_unchanged_exit") == 0 and conf.get("demo_patched_exit") not in (0, None))
        meta["confirmation"] = conf
        print("confirmation:", json.dumps({k: v for k, v in conf.items() if not k.endswith("_tail")}))

    # run the checks against /repo with the patch applied
    results = meta.get("check_results", {})
    if use_worktree:
        results = meta.get("preliminary_results", {})
        wt2 = "/tmp/seedrun_%s_%s" % (pid, x)
        sh("git -C %s worktree remove --force %s" % (REPO, wt2))
        sh("git -C %s worktree add -q %s HEAD" % (REPO, wt2))
        rc, o = sh("git apply %s" % os.path.abspath(patch), cwd=wt2)
        try:
            if rc != 0:
                print("patch does not apply:", o)
            else:
                env = dict(os.environ, VERIF_REPO=wt2)
                for ck in checks:
                    t0 = time.time()
                    rc, o = sh("bin/check.sh %s %s" % (ck, tier), cwd=VERIF, timeout=7200, env=env)
                    viol = [l for l in o.splitlines() if l.startswith("VIOLATION")]
                    detail = [l for l in o.splitlines() if l.startswith("  ") and not l.startswith("   ")][:3]
                    results["%s/%s" % (ck, tier)] = {"exit": rc, "violations": viol[:3], "detail": [d[:700] for d in detail], "wall_s": round(time.time() - t0),
                                                     "summary": o.strip().splitlines()[-1] if o.strip() else ""}
                    print("%s %s (worktree): exit %d, %d VIOLATION line(s), %.0fs" % (ck, tier, rc, len(viol), time.time() - t0))
                    for d in detail[:1]:
                        print("   " + d[:300])
        finally:
            sh("git -C %s worktree remove --force %s" % (REPO, wt2))
        meta["preliminary_results"] = results
        shutil.copy(patch, os.path.join(out, "patch.diff"))
        if os.path.exists(demo):
            shutil.copy(demo, os.path.join(out, "demo.cpp"))
        if os.path.exists(notes):
            shutil.copy(notes, os.path.join(out, "notes.md"))
        json.dump(meta, open(meta_path, "w"), indent=1)
        sh("git checkout -- evidence", cwd=VERIF)
        return 0
    rc, o = sh("git -C %s apply %s" % (REPO, os.path.abspath(patch)))
    if rc != 0:
        print("patch does not apply to /repo:", o)
        meta["applies_to_repo"] = False
    else:
        try:
            for ck in checks:
                t0 = time.time()
                rc, o = sh("bin/check.sh %s %s" % (ck, tier), cwd=VERIF, timeout=7200, env=dict(os.environ, VERIF_EVIDENCE_DIR="/tmp/verif_evidence_scratch"))
                viol = [l for l in o.splitlines() if l.startswith("VIOLATION")]
                detail = [l for l in o.splitlines() if l.startswith("  ") and not l.startswith("   ")][:3]
                results["%s/%s" % (ck, tier)] = {"exit": rc, "violations": viol[:3], "detail": [d[:700] for d in detail], "wall_s": round(time.time() - t0),
                                                 "summary": o.strip().splitlines()[-1] if o.strip() else ""}
                print("%s %s: exit %d, %d VIOLATION line(s), %.0fs" % (ck, tier, rc, len(viol), time.time() - t0))
                for d in detail[:1]:
                    print("   " + d[:300])
        finally:
            sh("git -C %s checkout -- ." % REPO)
    rc, o = sh("git -C %s status --porcelain --untracked-files=no" % REPO)
    assert not o.strip(), "/repo not clean after undo: " + o
    meta["check_results"] = results
    meta["caught_by"] = sorted(k for k, v in results.items() if v["exit"] == 1 and v["violations"])
    shutil.copy(patch, os.path.join(out, "patch.diff"))
    if os.path.exists(demo):
        shutil.copy(demo, os.path.join(out, "demo.cpp"))
    if os.path.exists(notes):
        shutil.copy(notes, os.path.join(out, "notes.md"))
    json.dump(meta, open(meta_path, "w"), indent=1)
    # evidence files are rewritten by the runs above against a mutated tree: restore the committed ones
    sh("git checkout -- evidence", cwd=VERIF)
    return 0


if __name__ == "__main__":
    sys.exit(main())
