#!/usr/bin/env python3
"""False-alarm probe: run checks against property-PRESERVING changes.

usage: benigntest.py <src_dir> <name> [--checks C12,C13] [--tier quick]

<src_dir>/<name>.patch (+ <name>_notes.md) was written by an independent sub-agent that was asked
for a legitimate change which keeps the property true but alters behaviour the property leaves
free (tie-breaking, traversal order, rounding, exception type, block shapes ...).  The patch is
applied to a scratch worktree of /repo (outside /repo and /verif, removed afterwards), the library's
own suite is run there, and the listed checks run against that tree through VERIF_REPO.  A
VIOLATION is either a false alarm of the check (to be corrected) or a change that is not benign
after all (to be shown with the failing input); the verdict is recorded by hand in meta.json.
"""
import json
import os
import shutil
import subprocess
import sys
import time

VERIF = os.path.dirname(os.path.dirname(os.path.abspath(__file__)))
REPO = "/repo"


def sh(cmd, cwd=None, timeout=7200, env=None):
    r = subprocess.run(cmd, shell=True, cwd=cwd, stdout=subprocess.PIPE, stderr=subprocess.STDOUT, text=True, errors="replace", timeout=timeout, env=env)
    return r.returncode, r.stdout


def main():
    src, name = sys.argv[1], sys.argv[2]
    checks = [name[:3]]
    tier = "quick"
    suite = True
    a = sys.argv[3:]
    while a:
        if a[0] == "--checks":
            checks = a[1].split(",")
            a = a[2:]
        elif a[0] == "--tier":
            tier = a[1]
            a = a[2:]
        elif a[0] == "--no-suite":
            suite = False
            a = a[1:]
        else:
            a = a[1:]
    patch = os.path.join(src, name + ".patch")
    notes = os.path.join(src, name + "_notes.md")
    out = os.path.join(VERIF, "seeded", "benign", name)
    os.makedirs(out, exist_ok=True)
    meta_path = os.path.join(out, "meta.json")
    meta = json.load(open(meta_path)) if os.path.exists(meta_path) else {}
    meta.update({"name": name, "kind": "property-preserving change (false-alarm probe)", "source": "independent sub-agent given only the property texts and a scratch worktree"})
    wt = "/tmp/benign_%s" % name
    sh("git -C %s worktree remove --force %s" % (REPO, wt))
    shutil.rmtree(wt, ignore_errors=True)
    sh("git -C %s worktree add -q --detach %s HEAD" % (REPO, wt))
    results = meta.get("check_results", {})
    try:
        rc, o = sh("git apply %s" % os.path.abspath(patch), cwd=wt)
        meta["patch_applies"] = rc == 0
        if rc != 0:
            print("patch does not apply:", o[-400:])
        else:
            if suite:
                rc, o = sh("cmake -G Ninja -S . -B _build -DFS_BUILD_TESTS=ON -DCMAKE_BUILD_TYPE=RelWithDebInfo -DCMAKE_CXX_FLAGS=-Wno-error "
                           "-DGTest_DIR=/root/miniconda/lib/cmake/GTest >/dev/null && cmake --build _build -j8 2>&1 | tail -3 && ctest --test-dir _build -j8 2>&1 | tail -6",
                           cwd=wt, timeout=3000)
                meta["suite_passes_with_patch"] = "100% tests passed" in o
                meta["suite_tail"] = o[-400:]
                shutil.rmtree(os.path.join(wt, "_build"), ignore_errors=True)
            env = dict(os.environ, VERIF_REPO=wt, VERIF_EVIDENCE_DIR="/tmp/verif_evidence_scratch")
            for ck in checks:
                t0 = time.time()
                rc, o = sh("bin/check.sh %s %s" % (ck, tier), cwd=VERIF, env=env)
                viol = [l for l in o.splitlines() if l.startswith("VIOLATION")]
                detail = [l for l in o.splitlines() if l.startswith("  ") and not l.startswith("   ")][:3]
                results["%s/%s" % (ck, tier)] = {"exit": rc, "violations": viol[:3], "detail": [d[:900] for d in detail], "wall_s": round(time.time() - t0),
                                                 "summary": o.strip().splitlines()[-1] if o.strip() else ""}
                print("%s: %s %s: exit %d, %d VIOLATION line(s), %.0fs" % (name, ck, tier, rc, len(viol), time.time() - t0))
                for d in detail[:1]:
                    print("   " + d[:400])
    finally:
        sh("git -C %s worktree remove --force %s" % (REPO, wt))
        shutil.rmtree(wt, ignore_errors=True)
    meta["check_results"] = results
    meta["alarms"] = sorted(k for k, v in results.items() if v["exit"] != 0)
    shutil.copy(patch, os.path.join(out, "patch.diff"))
    if os.path.exists(notes):
        shutil.copy(notes, os.path.join(out, "notes.md"))
    json.dump(meta, open(meta_path, "w"), indent=1)
    return 0


if __name__ == "__main__":
    sys.exit(main())
