#!/usr/bin/env python3
"""Regenerates MANIFEST.json from props/meta.json (single source of per-property metadata)."""
import json, os, subprocess
V = os.path.dirname(os.path.dirname(os.path.abspath(__file__)))
meta = json.load(open(os.path.join(V, "props", "meta.json")))
props = [json.loads(l) for l in open(os.path.join(V, "properties.jsonl"))]
hooks_file = os.path.join(V, "hooks.json")
hooks = json.load(open(hooks_file)) if os.path.exists(hooks_file) else {"source_commits": []}
checks, na = [], []
for p in props:
    pid = p["id"]
    m = meta.get(pid)
    if not m or m.get("not_applicable"):
        na.append({"property_id": pid, "reason": (m or {}).get("not_applicable", "no check registered yet in this round (see DESIGN.md section 7 for the planned generator and oracle)")})
        continue
    c = {
        "property_id": pid,
        "quick_cmd": "bin/check.sh %s quick" % pid,
        "thorough_cmd": "bin/check.sh %s thorough" % pid,
        "evidence_file": "evidence/%s.json" % pid,
        "replay_cmd_template": "python3 bin/vcheck.py replay %s {path}" % pid,
        "engine": "pbt-engine",
        "level_claimed": {"category": m.get("level", "exploration"), "text": m["level_text"], "design_ref": m.get("design_ref", "DESIGN.md section 7")},
        "level_note": m["level_note"],
        "technique": m["technique"],
    }
    checks.append(c)
man = {
    "version": 1,
    "setup_cmd": "python3 bin/vcheck.py build all",
    "hooks": {
        "guard": "FASTSCAPELIB_VERIF_HOOKS",
        "enable": "every harness translation unit is compiled with -DFASTSCAPELIB_VERIF_HOOKS (bin/vcheck.py COMMON flags); the repository's own build never defines it",
        "baseline_off_cmd": "bin/baseline_off.sh",
        "source_commits": hooks.get("source_commits", []),
        "add_only": True,
    },
    "engines": [{
        "name": "pbt-engine",
        "path": "engine/",
        "serves_properties": [c["property_id"] for c in checks],
        "kind_free_text": "byte-string case format decoded by constructive generators (engine/gen.hpp), driven by rapidcheck (generation + shrinking) and libFuzzer (coverage-guided, thorough tier), explicit oracles per property (props/Cxx.cpp, engine/model_*.hpp), ASan+UBSan / TSan builds of the real library through a type-erased adapter (engine/adapter_impl.hpp); runner bin/vcheck.py (content-hashed build cache, sharding, crash shrinking, 3x replay confirmation, evidence)",
    }],
    "checks": checks,
    "notes": "All checks rebuild from /repo's working tree (content hash of /repo/include + engine sources selects the build directory under .build/). VERIF_SEED selects the shard seeds. known_findings.json lists fixed and known findings.",
    "not_applicable": na,
}
json.dump(man, open(os.path.join(V, "MANIFEST.json"), "w"), indent=1)
print("MANIFEST.json: %d checks, %d not_applicable" % (len(checks), len(na)))
