#!/usr/bin/env python3
"""Hand-made one-line mutants (mutants/mutants.json): each is applied to a scratch worktree
of /repo (outside /repo and /verif), the target property's quick check runs against it through
VERIF_REPO, the result is recorded in mutants/results.json.  usage: mutants.py [M01 M02 ...]"""
import json, os, subprocess, sys, time
V = os.path.dirname(os.path.dirname(os.path.abspath(__file__)))
WT = "/tmp/wt_mutants"
def sh(c, **kw):
    r = subprocess.run(c, shell=True, stdout=subprocess.PIPE, stderr=subprocess.STDOUT, text=True, errors="replace", **kw)
    return r.returncode, r.stdout
muts = json.load(open(os.path.join(V, "mutants", "mutants.json")))
sel = set(sys.argv[1:])
resf = os.path.join(V, "mutants", "results.json")
res = json.load(open(resf)) if os.path.exists(resf) else {}
sh("git -C /repo worktree remove --force %s" % WT)
rc, o = sh("git -C /repo worktree add -q %s HEAD" % WT)
try:
    for m in muts:
        if sel and m["id"] not in sel:
            continue
        sh("git checkout -q -- .", cwd=WT)
        p = os.path.join(WT, m["file"])
        s = open(p).read()
        if s.count(m["old"]) != 1:
            print(m["id"], "PATTERN NOT UNIQUE/FOUND (%d)" % s.count(m["old"]))
            res[m["id"]] = {"prop": m["prop"], "what": m["what"], "status": "pattern-not-found"}
            continue
        open(p, "w").write(s.replace(m["old"], m["new"]))
        t0 = time.time()
        env = dict(os.environ, VERIF_REPO=WT)
        rc, o = sh("bin/check.sh %s quick" % m["prop"], cwd=V, env=env, timeout=3600)
        viol = [l for l in o.splitlines() if l.startswith("VIOLATION")]
        det = [l.strip()[:300] for l in o.splitlines() if l.startswith("  ") and not l.startswith("   ")][:1]
        status = "killed" if rc == 1 and viol else ("build-failed" if rc == 3 else "survived" if rc == 0 else "error(%d)" % rc)
        res[m["id"]] = {"prop": m["prop"], "what": m["what"], "status": status, "wall_s": round(time.time() - t0), "detail": det}
        print(m["id"], m["prop"], status, "%.0fs" % (time.time() - t0), det[0][:160] if det else "")
        json.dump(res, open(resf, "w"), indent=1)
finally:
    sh("git -C /repo worktree remove --force %s" % WT)
    sh("git checkout -- evidence", cwd=V)
