#!/usr/bin/env python3
"""Regenerates the generated regions of DESIGN.md:
   SEEDED_TABLE  - one row per independently seeded breaking change (seeded/<ID>-<X>/meta.json)
   BENIGN_TABLE  - one row per property-preserving change used as a false-alarm probe (seeded/benign/*)
"""
import glob, json, os, re, subprocess
V = os.path.dirname(os.path.dirname(os.path.abspath(__file__)))


def esc(t):
    return re.sub(r"[|]", "/", t).replace("\n", " ").strip()


def seeded_rows():
    out = []
    for d in sorted(glob.glob(os.path.join(V, "seeded", "C??-?"))):
        mp = os.path.join(d, "meta.json")
        if not os.path.exists(mp):
            continue
        m = json.load(open(mp))
        name = os.path.basename(d)
        np_ = os.path.join(d, "notes.md")
        needs = m.get("needs", "")
        title = ""
        if os.path.exists(np_):
            lines = open(np_).read().splitlines()
            if lines:
                title = re.sub(r"^#+\s*", "", lines[0])
                title = re.sub(r"^(C\d\d\s*/\s*)?[Cc]hange [A-Z]\s*[-:—–]*\s*", "", title).strip()
            if not needs:
                for k, line in enumerate(lines):
                    if re.search(r"need(ed|s)?\b.*(manifest|see it|trigger)|what (it|is) need|\*\*trigger|needed to|what is needed|trigger:|\*\*what it needs", line, re.I):
                        t = " ".join(l.strip() for l in lines[k:k + 3])
                        t = re.sub(r"[`*#]", "", t)
                        t = re.sub(r"^[\s\-]*(what is needed( to manifest| to see it)?|needed to manifest|what it needs( to manifest)?|needed|trigger)[\s:.\-]*", "", t, flags=re.I)
                        needs = t.strip()
                        break
        res = dict(m.get("preliminary_results", {}))
        res.update(m.get("check_results", {}))
        via = "/repo" if m.get("check_results") else "worktree"
        caught = [k for k, v in res.items() if v.get("exit") == 1 and v.get("violations")]
        missed = [k for k, v in res.items() if v.get("exit") == 0]
        how = ""
        for k in caught:
            det = res[k].get("detail") or [""]
            how = det[0].strip()
            how = how.split(" | case:")[0]
            break
        conf = m.get("confirmation", {})
        out.append("| %s | %s | %s | %s | %s | %s | %s |" % (
            name, esc(title)[:110], "yes" if conf.get("confirmed") else "NO",
            (", ".join(caught) + " (" + via + ")") if caught else ("**missed**: " + ", ".join(missed)),
            esc(needs)[:260], esc(how)[:150], esc(m.get("remark", ""))))
    head = ["| change | what was changed | confirmed | caught by | what it needs to manifest (author's words) | first report of the check | remark |", "|---|---|---|---|---|---|---|"]
    return head + out


def benign_rows():
    out = []
    for d in sorted(glob.glob(os.path.join(V, "seeded", "benign", "*"))):
        mp = os.path.join(d, "meta.json")
        if not os.path.exists(mp):
            continue
        m = json.load(open(mp))
        title = ""
        np_ = os.path.join(d, "notes.md")
        if os.path.exists(np_):
            lines = [l for l in open(np_).read().splitlines() if l.strip()]
            if lines:
                title = re.sub(r"^#+\s*", "", lines[0])
                title = re.sub(r"^C\d\d_\d\s*[-:—–]*\s*", "", title)
        res = m.get("check_results", {})
        ran = ", ".join(sorted(res))
        alarms = [k for k, v in res.items() if v.get("exit") != 0]
        out.append("| %s | %s | %s | %s | %s | %s |" % (
            os.path.basename(d), esc(title)[:140], {True: "passes", False: "pins broken", None: "-"}[m.get("suite_passes_with_patch")],
            ran, ", ".join(alarms) if alarms else "none", esc(m.get("verdict", ""))))
    head = ["| change | what it changes (property still holds) | library's own suite | checks run against it (quick) | alarms | verdict |", "|---|---|---|---|---|---|"]
    return head + out


def main():
    p = os.path.join(V, "DESIGN.md")
    s = open(p).read()
    for tag, rows in (("SEEDED_TABLE", seeded_rows()), ("BENIGN_TABLE", benign_rows())):
        m = re.search(r"(<!-- %s_BEGIN[^\n]*-->\n)(.*?)(<!-- %s_END -->)" % (tag, tag), s, re.S)
        if not m:
            continue
        s = s[:m.start(2)] + "\n".join(rows) + "\n" + s[m.start(3):]
    open(p, "w").write(s)


if __name__ == "__main__":
    main()
