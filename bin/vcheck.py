#!/usr/bin/env python3
"""Build-if-stale, run shards, merge, decide.  See DESIGN.md section 5.

usage: vcheck.py check <ID> [quick|thorough]
       vcheck.py replay <ID> <file>
       vcheck.py build [all|<ID>...]
       vcheck.py shrink <ID> <file> <out>
"""
import fcntl
import glob
import hashlib
import json
import os
import re
import shutil
import subprocess
import sys
import time
from concurrent.futures import ThreadPoolExecutor

VERIF = os.path.dirname(os.path.dirname(os.path.abspath(__file__)))
REPO = os.environ.get("VERIF_REPO", "/repo")
BUILD_ROOT = os.path.join(VERIF, ".build")
ENGINE = os.path.join(VERIF, "engine")
PROPS = os.path.join(VERIF, "props")
GUARD = "FASTSCAPELIB_VERIF_HOOKS"
CXX = "clang++"
NCPU = 16

COMMON = ["-std=c++17", "-O1", "-gline-tables-only", "-fno-omit-frame-pointer",
          "-D_GLIBCXX_ASSERTIONS", "-D" + GUARD, "-Wno-deprecated-declarations",
          "-I" + os.path.join(REPO, "include"), "-I" + ENGINE]
VARIANTS = {
    # address + undefined, coverage instrumentation of the library code so that the same
    # objects serve rapidcheck binaries and libFuzzer targets
    # (_GLIBCXX_SANITIZE_VECTOR is not used: librapidcheck.a is built without it and mixing
    # annotated and un-annotated std::vector code yields false container-overflow reports;
    # _GLIBCXX_ASSERTIONS still checks every std::vector::operator[] against size())
    "asan": ["-fsanitize=address,undefined", "-fno-sanitize-recover=all"],
    "tsan": ["-fsanitize=thread"],
    # same as asan plus coverage instrumentation of the library code for libFuzzer targets
    "asanfuzz": ["-fsanitize=address,undefined", "-fno-sanitize-recover=all", "-fsanitize=fuzzer-no-link"],
}
ADAPTER_TYPES = {"asan": list(range(9)), "tsan": list(range(9)), "asanfuzz": list(range(9))}

SAN_ENV = {
    "ASAN_OPTIONS": "exitcode=77:detect_leaks=0:abort_on_error=0:allocator_may_return_null=1:detect_stack_use_after_return=1",
    "UBSAN_OPTIONS": "exitcode=77:print_stacktrace=1:halt_on_error=1",
    "TSAN_OPTIONS": "exitcode=66:halt_on_error=1:second_deadlock_stack=1",
}

# ---------------------------------------------------------------- per-property configuration
# n: cases per shard ; scale: byte-buffer length multiplier ; arg: tier-dependent size knob
DEFAULT = {"variant": "asan", "adapters": True, "quick": {"shards": 8, "n": 1500, "scale": 20, "arg": 0},
           "thorough": {"shards": 16, "n": 12000, "scale": 30, "arg": 0}, "fuzz_s": 0}
CONFIG = {
    "C08": {"fuzz_s": 240, "quick": {"shards": 8, "n": 6000, "scale": 30, "arg": 9}, "thorough": {"shards": 16, "n": 15000, "scale": 50, "arg": 16}},
    "C14": {"quick": {"shards": 8, "n": 4000, "scale": 24, "arg": 10}, "thorough": {"shards": 16, "n": 14000, "scale": 60, "arg": 24}},
    "C12": {"quick": {"shards": 8, "n": 9000, "scale": 24, "arg": 8}, "thorough": {"shards": 16, "n": 30000, "scale": 40, "arg": 16}},
    "C13": {"quick": {"shards": 8, "n": 9000, "scale": 24, "arg": 8}, "thorough": {"shards": 16, "n": 30000, "scale": 40, "arg": 16}},
    "C09": {"fuzz_s": 120, "quick": {"shards": 8, "n": 5000, "scale": 30, "arg": 8}, "thorough": {"shards": 16, "n": 16000, "scale": 50, "arg": 16}},
    "C16": {"fuzz_s": 90, "quick": {"shards": 8, "n": 6000, "scale": 24, "arg": 8}, "thorough": {"shards": 16, "n": 18000, "scale": 40, "arg": 16}},
    "C15": {"fuzz_s": 120, "quick": {"shards": 8, "n": 7000, "scale": 24, "arg": 12}, "thorough": {"shards": 16, "n": 20000, "scale": 40, "arg": 24}},
    "C10": {"variants": ["asan", "tsan"],
            "quick": {"shards": 4, "n": 150, "scale": 20, "arg": 12, "max_size": 100},
            "thorough": {"shards": 6, "n": 3000, "scale": 30, "arg": 20, "max_size": 100}},
    "C11": {"adapters": False, "enum": True, "variants": ["asan", "tsan"],
            "quick": {"shards": 4, "n": 250, "scale": 5, "arg": 0, "max_size": 100},
            "thorough": {"shards": 6, "n": 3000, "scale": 5, "arg": 0, "max_size": 100}},
    "C20": {"enum": True, "quick": {"shards": 8, "n": 6000, "scale": 4, "arg": 0}, "thorough": {"shards": 16, "n": 30000, "scale": 4, "arg": 0}},
    "C03": {"quick": {"shards": 8, "n": 10000, "scale": 20, "arg": 10}, "thorough": {"shards": 16, "n": 25000, "scale": 40, "arg": 24}},
    "C04": {"quick": {"shards": 8, "n": 10000, "scale": 20, "arg": 10}, "thorough": {"shards": 16, "n": 30000, "scale": 40, "arg": 24}},
    "C05": {"quick": {"shards": 8, "n": 10000, "scale": 20, "arg": 10}, "thorough": {"shards": 16, "n": 25000, "scale": 40, "arg": 24}},
    "C06": {"fuzz_s": 90, "quick": {"shards": 8, "n": 9000, "scale": 24, "arg": 10}, "thorough": {"shards": 16, "n": 20000, "scale": 40, "arg": 24}},
    "C19": {"quick": {"shards": 8, "n": 9000, "scale": 24, "arg": 10}, "thorough": {"shards": 16, "n": 20000, "scale": 40, "arg": 24}},
    "C01": {"fuzz_s": 120, "quick": {"shards": 8, "n": 12000, "scale": 20, "arg": 10},
            "thorough": {"shards": 16, "n": 20000, "scale": 40, "arg": 24}},
    "C02": {"quick": {"shards": 8, "n": 6000, "scale": 20, "arg": 10},
            "thorough": {"shards": 16, "n": 15000, "scale": 40, "arg": 24}},
    "C18": {"quick": {"shards": 8, "n": 8000, "scale": 10, "arg": 6},
            "thorough": {"shards": 16, "n": 20000, "scale": 16, "arg": 10}},
    "C07": {"enum": True, "quick": {"shards": 8, "n": 4000, "scale": 8, "arg": 10},
            "thorough": {"shards": 16, "n": 12000, "scale": 10, "arg": 24}},
    "C17": {"enum": True, "quick": {"shards": 8, "n": 8000, "scale": 8, "arg": 9},
            "thorough": {"shards": 16, "n": 40000, "scale": 12, "arg": 24}},
}


def conf(pid):
    c = json.loads(json.dumps(DEFAULT))
    for k, v in CONFIG.get(pid, {}).items():
        if isinstance(v, dict):
            c[k].update(v)
        else:
            c[k] = v
    # smoke-test overrides (not used by the registered commands)
    if os.environ.get("VERIF_FUZZ_S") and c.get("fuzz_s", 0) > 0:
        c["fuzz_s"] = int(os.environ["VERIF_FUZZ_S"])
    if os.environ.get("VERIF_N_DIV"):
        for t in ("quick", "thorough"):
            c[t]["n"] = max(10, c[t]["n"] // int(os.environ["VERIF_N_DIV"]))
    return c


# ---------------------------------------------------------------- hashing / build cache
def file_hash(paths):
    h = hashlib.sha256()
    for p in sorted(paths):
        h.update(p.encode())
        with open(p, "rb") as f:
            h.update(f.read())
    return h.hexdigest()


def tree_files(root, exts):
    out = []
    for d, _, fs in os.walk(root):
        for f in fs:
            if f.endswith(exts):
                out.append(os.path.join(d, f))
    return out


def include_hash():
    return file_hash(tree_files(os.path.join(REPO, "include"), (".hpp", ".h")))


def adapter_hash():
    """Sources the adapter objects are compiled from."""
    return file_hash([os.path.join(ENGINE, f) for f in ("adapter.hpp", "adapter_impl.hpp", "adapter_tu.cpp", "adapter_dispatch.cpp")])


def harness_hash():
    """Headers every property translation unit includes."""
    return file_hash(tree_files(ENGINE, (".hpp",)))


def run(cmd, **kw):
    return subprocess.run(cmd, stdout=subprocess.PIPE, stderr=subprocess.STDOUT, text=True, **kw)


def build_dir(variant):
    flags = " ".join(COMMON + VARIANTS[variant])
    key = hashlib.sha256((include_hash() + adapter_hash() + flags).encode()).hexdigest()[:16]
    return os.path.join(BUILD_ROOT, "%s-%s" % (variant, key))


def prune_build_dirs(keep):
    """Bounded disk use: drop build trees that were not used for a while (never a recent one:
    another check may be running from it)."""
    if not os.path.isdir(BUILD_ROOT):
        return
    now = time.time()
    dirs = [os.path.join(BUILD_ROOT, d) for d in os.listdir(BUILD_ROOT) if os.path.isdir(os.path.join(BUILD_ROOT, d)) and "-" in d and not d.startswith("run-")]
    dirs = [d for d in dirs if d not in keep and now - os.path.getmtime(d) > 1800]
    dirs.sort(key=lambda d: os.path.getmtime(d))
    while len(dirs) > 4:
        shutil.rmtree(dirs.pop(0), ignore_errors=True)


def compile_one(cmd, out):
    if os.path.exists(out):
        return (0, "")
    tmp = out + ".tmp.%d" % os.getpid()
    r = run(cmd + ["-o", tmp])
    if r.returncode == 0:
        os.replace(tmp, out)
    else:
        try:
            os.remove(tmp)
        except OSError:
            pass
    return (r.returncode, r.stdout)


def ensure_adapters(variant, bdir, flags):
    """Adapter objects (template-heavy library instantiations), shared by all properties."""
    objs = [os.path.join(bdir, "a%d.o" % k) for k in ADAPTER_TYPES[variant]] + [os.path.join(bdir, "disp.o")]
    if all(os.path.exists(o) for o in objs):
        return objs
    lock = open(os.path.join(bdir, ".lock"), "w")
    fcntl.flock(lock, fcntl.LOCK_EX)
    try:
        jobs = []
        for k in ADAPTER_TYPES[variant]:
            jobs.append((CXX_CMD(flags, ["-DVA_TYPE_INDEX=%d" % k, "-c", os.path.join(ENGINE, "adapter_tu.cpp")]),
                         os.path.join(bdir, "a%d.o" % k)))
        jobs.append((CXX_CMD(flags, ["-c", os.path.join(ENGINE, "adapter_dispatch.cpp")]), os.path.join(bdir, "disp.o")))
        t0 = time.time()
        with ThreadPoolExecutor(max_workers=NCPU) as ex:
            res = list(ex.map(lambda j: compile_one(*j), jobs))
        for (rc, out), (cmd, o) in zip(res, jobs):
            if rc != 0:
                sys.stderr.write("BUILD FAILED: %s\n%s\n" % (" ".join(cmd), out[-6000:]))
                raise SystemExit(3)
        sys.stderr.write("[build] adapters (%s) in %.0fs\n" % (variant, time.time() - t0))
    finally:
        fcntl.flock(lock, fcntl.LOCK_UN)
        lock.close()
    return objs


def build(pid, variant=None, fuzz=False, quiet=False):
    """Returns path to the binary for property pid (built from the current /repo tree)."""
    cfg = conf(pid)
    variant = variant or cfg["variant"]
    bdir = build_dir(variant)
    os.makedirs(bdir, exist_ok=True)
    os.utime(bdir, None)
    flags = COMMON + VARIANTS[variant]
    src = os.path.join(PROPS, pid + ".cpp")
    if variant == "tsan" and os.path.exists(os.path.join(PROPS, pid + "_tsan.cpp")):
        src = os.path.join(PROPS, pid + "_tsan.cpp")
    ph = hashlib.sha256((file_hash([src]) + harness_hash()).encode()).hexdigest()[:10]
    binary = os.path.join(bdir, "%s%s.%s" % (pid, "_fuzz" if fuzz else "", ph))
    if os.path.exists(binary):
        try:
            os.utime(binary, None)
        except OSError:
            pass
        return binary
    objs = ensure_adapters(variant, bdir, flags) if cfg["adapters"] else []
    lock = open(os.path.join(bdir, ".lock." + pid + ("_fuzz" if fuzz else "")), "w")
    fcntl.flock(lock, fcntl.LOCK_EX)
    try:
        if os.path.exists(binary):
            return binary
        t0 = time.time()
        pobj = os.path.join(bdir, "%s%s.%s.o" % (pid, "_fuzz" if fuzz else "", ph))
        extra = ["-DVH_FUZZ"] if fuzz else []
        cmd = CXX_CMD(flags, extra + ["-c", src])
        rc, out = compile_one(cmd, pobj)
        if rc != 0:
            sys.stderr.write("BUILD FAILED: %s\n%s\n" % (" ".join(cmd), out[-6000:]))
            raise SystemExit(3)
        link = [CXX] + VARIANTS[variant][:1] + [pobj] + objs + ["-pthread"]
        if fuzz:
            link[1] = link[1] + ",fuzzer"
        else:
            link += ["-lrapidcheck"]
        rc, out = compile_one(link, binary)
        if rc != 0:
            sys.stderr.write("LINK FAILED: %s\n%s\n" % (" ".join(link), out[-6000:]))
            raise SystemExit(3)
        for old in glob.glob(os.path.join(bdir, pid + ("_fuzz" if fuzz else "") + ".*")):
            if old != binary and not old.endswith(".tmp") and os.path.basename(old).split(".")[0] == pid + ("_fuzz" if fuzz else "") \
                    and time.time() - os.path.getmtime(old) > 1800:
                try:
                    os.remove(old)
                except OSError:
                    pass
        if not quiet:
            sys.stderr.write("[build] %s%s (%s) in %.0fs\n" % (pid, " fuzz" if fuzz else "", variant, time.time() - t0))
        prune_build_dirs({bdir, build_dir("asan"), build_dir("tsan"), build_dir("asanfuzz")})
        return binary
    finally:
        fcntl.flock(lock, fcntl.LOCK_UN)
        lock.close()


def CXX_CMD(flags, rest):
    return [CXX] + flags + rest


# ---------------------------------------------------------------- known findings
def load_known():
    p = os.path.join(VERIF, "known_findings.json")
    if not os.path.exists(p):
        return []
    with open(p) as f:
        return json.load(f).get("findings", [])


def env_for_run():
    e = dict(os.environ)
    e.update(SAN_ENV)
    if os.environ.get("VERIF_TIER_RUNNING") == "thorough":
        e.setdefault("VERIF_C20_MAXL", "5")
    return e


def arg_of(path):
    """Size knob a saved case was generated with (part of its meaning): encoded in the file name
    as .arg<N>. ; absent = the quick tier's value, which is also the decoders' default."""
    m = re.search(r"\.arg(\d+)\.", os.path.basename(path))
    return int(m.group(1)) if m else None


def replay_once(binary, path, known=(), timeout=120, case_timeout=20):
    cmd = [binary, "--replay", path, "--case-timeout", str(case_timeout)]
    a = arg_of(path)
    if a is not None:
        cmd += ["--size-arg", str(a)]
    if known:
        cmd += ["--known", ",".join(known)]
    try:
        r = subprocess.run(cmd, stdout=subprocess.PIPE, stderr=subprocess.PIPE, text=True, errors="replace", env=env_for_run(), timeout=timeout)
        return r.returncode, r.stdout, r.stderr
    except subprocess.TimeoutExpired as e:
        return -999, (e.stdout or b"").decode(errors="replace") if isinstance(e.stdout, bytes) else (e.stdout or ""), "TIMEOUT"


def crash_signature(rc, stderr):
    """A short, stable summary of a sanitizer / assertion abort."""
    for line in stderr.splitlines():
        if line.startswith("POOL-STUCK"):
            return "non-termination: worker pool provably stuck (%s)" % ("lost wake-up" if "lost wake-up" in line else "pause() never completes" if "spins in pause()" in line else "join never returns" if "join()" in line else "job handed to nobody")
    if rc == -999 or rc == 88:
        return "non-termination (case watchdog)"
    for line in stderr.splitlines():
        if "SUMMARY:" in line:
            s = line.split("SUMMARY:", 1)[1].strip()
            # drop addresses / line numbers that vary between shrink candidates
            parts = s.split()
            return " ".join(parts[:3]) if parts else s
        if "Assertion" in line and "failed" in line:
            return "assert: " + line.strip()[-160:]
        if "runtime error:" in line:
            return "ubsan: " + line.split("runtime error:", 1)[1].strip()[:120]
    return "abnormal-exit(%d)" % rc


def is_crash(rc):
    # 89 = "slow without a provably stuck state": inconclusive by design, never a violation
    return rc not in (0, 1, 2, 89)


def shrink_crash(binary, data, sig, budget_s=60, known=(), arg=None):
    """Out-of-process delta debugging for inputs that kill the process."""
    t_end = time.time() + budget_s
    tmp = os.path.join(BUILD_ROOT, "shrink.%d%s.bin" % (os.getpid(), (".arg%d" % arg) if arg is not None else ""))

    hang = sig.startswith("non-termination")

    def still(d):
        with open(tmp, "wb") as f:
            f.write(d)
        rc, _, err = replay_once(binary, tmp, known, timeout=30, case_timeout=4 if hang else 20)
        return is_crash(rc) and crash_signature(rc, err) == sig

    cur = bytes(data)
    # truncate
    lo = 0
    while time.time() < t_end and len(cur) > 0:
        cand = cur[: len(cur) // 2]
        if still(cand):
            cur = cand
        else:
            break
    chunk = max(1, len(cur) // 4)
    while chunk >= 1 and time.time() < t_end:
        i = 0
        changed = False
        while i < len(cur) and time.time() < t_end:
            cand = cur[:i] + cur[i + chunk:]
            if still(cand):
                cur = cand
                changed = True
            else:
                i += chunk
        if not changed:
            chunk //= 2
    # zero bytes
    i = 0
    while i < len(cur) and time.time() < t_end:
        if cur[i] != 0:
            cand = cur[:i] + b"\0" + cur[i + 1:]
            if still(cand):
                cur = cand
        i += 1
    try:
        os.remove(tmp)
    except OSError:
        pass
    return cur


# ---------------------------------------------------------------- check
def shard_seed(seed, shard, pid):
    x = (seed * 1000003 + shard * 7919 + int(pid[1:]) * 104729 + 12345) & 0x7FFFFFFFFFFF
    return x if x != 0 else 1


def run_shard(binary, pid, seed, shard, tcfg, outdir, known, extra_args=()):
    out = os.path.join(outdir, "shard_%d.json" % shard)
    cmd = [binary, "--rc", "--seed", str(shard_seed(seed, shard, pid)), "--n", str(tcfg["n"]), "--scale", str(tcfg["scale"]),
           "--max-size", str(tcfg.get("max_size", 100)), "--size-arg", str(tcfg.get("arg", 0)), "--case-timeout", str(tcfg.get("case_timeout", 30)), "--out", out] + list(extra_args)
    if known:
        cmd += ["--known", ",".join(known)]
    t0 = time.time()
    try:
        r = subprocess.run(cmd, stdout=subprocess.PIPE, stderr=subprocess.PIPE, text=True, errors="replace", env=env_for_run(),
                           timeout=tcfg.get("timeout", 3000))
        rc, so, se = r.returncode, r.stdout, r.stderr
    except subprocess.TimeoutExpired as e:
        rc, so, se = -999, "", "TIMEOUT"
    return {"shard": shard, "rc": rc, "stderr": se[-20000:], "out": out, "wall": time.time() - t0}


def run_enum_shard(binary, pid, k, nshards, total, outdir, known, tcfg):
    out = os.path.join(outdir, "enum_%d.json" % k)
    lo = total * k // nshards
    hi = total * (k + 1) // nshards
    cmd = [binary, "--enum", "--from", str(lo), "--to", str(hi), "--case-timeout", str(tcfg.get("case_timeout", 30)), "--out", out]
    if known:
        cmd += ["--known", ",".join(known)]
    t0 = time.time()
    try:
        r = subprocess.run(cmd, stdout=subprocess.PIPE, stderr=subprocess.PIPE, text=True, errors="replace", env=env_for_run(), timeout=3000)
        rc, se = r.returncode, r.stderr
    except subprocess.TimeoutExpired:
        rc, se = -999, "TIMEOUT"
    return {"shard": 1000 + k, "rc": rc, "stderr": se[-20000:], "out": out, "wall": time.time() - t0, "enum": (lo, hi)}


def run_fuzz_instance(binary, pid, k, seed, seconds, outdir, known, arg):
    """One libFuzzer instance (coverage-guided mutation of the same byte-string case format)."""
    d = os.path.join(outdir, "fuzz_%d" % k)
    cdir = os.path.join(d, "corpus")
    os.makedirs(cdir)
    for f in glob.glob(os.path.join(VERIF, "corpus", pid, "*.bin")):
        shutil.copy(f, cdir)
    # half of the instances start from an empty corpus (see the guidance: both can matter)
    if k % 2 == 1:
        for f in glob.glob(os.path.join(cdir, "*")):
            os.remove(f)
    env = env_for_run()
    env["VH_FUZZ_OUT"] = os.path.join(d, "stats.json")
    env["VH_KNOWN"] = ",".join(known)
    env["VH_SIZE_ARG"] = str(arg)
    cmd = [binary, cdir, "-max_total_time=%d" % seconds, "-max_len=6000", "-seed=%d" % (shard_seed(seed, 500 + k, pid) % 2147483647),
           "-print_final_stats=1", "-artifact_prefix=%s/art-" % d, "-timeout=60", "-rss_limit_mb=6000", "-detect_leaks=0", "-verbosity=0"]
    try:
        r = subprocess.run(cmd, stdout=subprocess.PIPE, stderr=subprocess.PIPE, text=True, errors="replace", env=env, timeout=seconds + 300)
        rc, se = r.returncode, r.stderr
    except subprocess.TimeoutExpired:
        rc, se = -999, "TIMEOUT"
    execs = 0
    for line in se.splitlines():
        if "stat::number_of_executed_units" in line:
            try:
                execs = int(line.split(":")[-1].strip())
            except ValueError:
                pass
    arts = [a for a in glob.glob(os.path.join(d, "art-*")) if os.path.basename(a).startswith(("art-crash", "art-leak"))]
    return {"shard": 2000 + k, "rc": 0 if not arts else 1, "fuzz_rc": rc, "stderr": se[-20000:], "out": os.path.join(d, "stats.json"), "execs": execs, "artifacts": arts}


def merge_shards(results):
    agg = {"evaluations": 0, "passed": 0, "nontrivial": 0, "discards": 0, "labels": {}, "discard_reasons": {},
           "known_excluded": {}, "hashes": set(), "samples": [], "violations": [], "distinct_all": 0}
    for r in results:
        if not os.path.exists(r["out"]):
            continue
        try:
            with open(r["out"]) as f:
                d = json.load(f)
        except Exception:
            continue
        for k in ("evaluations", "passed", "nontrivial", "discards"):
            agg[k] += d.get(k, 0)
        for key in ("labels", "discard_reasons", "known_excluded"):
            for k, v in d.get(key, {}).items():
                agg[key][k] = agg[key].get(k, 0) + v
        agg["hashes"].update(d.get("nt_hashes", []))
        agg["distinct_all"] += d.get("distinct_all", 0)
        for s in d.get("samples", []):
            if len(agg["samples"]) < 10:
                agg["samples"].append(s)
        if d.get("violation"):
            v = d["violation"]
            v["shard"] = r["shard"]
            v["binary"] = r.get("binary")
            agg["violations"].append(v)
    return agg


def write_evidence(pid, tier, seed, level, agg, wall, rule, assumptions, violations, extra=None):
    cov = {
        "evaluations": agg["evaluations"],
        "distinct_nontrivial": len(agg["hashes"]),
        "rule": rule,
        "samples": agg["samples"][:10] if agg["samples"] else ["(no non-trivial case was produced)"],
        "nontrivial_evaluations": agg["nontrivial"],
        "discards": agg["discards"],
        "discard_reasons": agg["discard_reasons"],
        "label_histogram": dict(sorted(agg["labels"].items())),
        "known_finding_exclusions": agg["known_excluded"],
        "exhaustive": False,
    }
    if extra:
        cov.update(extra)
    ev = {"property_id": pid, "tier": tier, "seed": seed, "level": level, "coverage": cov, "assumptions": assumptions,
          "wall_s": round(wall, 2), "violations": violations}
    # evidence of the registered commands describes /repo itself; runs against another tree
    # (VERIF_REPO: scratch worktrees used for mutants and development) write elsewhere
    edir = os.environ.get("VERIF_EVIDENCE_DIR") or (os.path.join(VERIF, "evidence") if REPO == "/repo" else "/tmp/verif_evidence_scratch")
    os.makedirs(edir, exist_ok=True)
    p = os.path.join(edir, pid + ".json")
    with open(p + ".tmp", "w") as f:
        json.dump(ev, f, indent=1)
    os.replace(p + ".tmp", p)


def load_meta(pid):
    with open(os.path.join(VERIF, "props", "meta.json")) as f:
        return json.load(f)[pid]


def confirm_violation(binary, path, known, times=3, need=None):
    """A reported input must fail in each of `times` fresh processes (deterministic properties).
    Where a thread schedule takes part in the case (C10, C11) the oracles are hard facts about one
    execution (an index processed 0 times, a result that differs from the sequential one): there
    `need` of `times` replays must fail."""
    need = times if need is None else need
    fails = 0
    last = ""
    for k in range(times):
        rc, so, se = replay_once(binary, path, known)
        if rc == 1 or is_crash(rc):
            fails += 1
            last = so + se[-3000:]
        if fails >= need or fails + (times - k - 1) < need:
            break
    return fails >= need, last


def rerun_shard_fails(binary, pid, seed, shard, tcfg, known, kind, times=2):
    """Re-runs a whole shard (deterministic: same seed, same parameters) and tells whether it
    fails again with the same kind of violation, `times` times out of `times`."""
    for k in range(times):
        out = os.path.join(BUILD_ROOT, "rerun-%s-%d-%d.json" % (pid, os.getpid(), k))
        r = run_shard(binary, pid, seed, shard, tcfg, os.path.dirname(out), known)
        try:
            with open(r["out"]) as f:
                v = json.load(f).get("violation")
        except Exception:
            v = None
        for leftover in (r["out"], r["out"] + ".current"):
            try:
                os.remove(leftover)
            except OSError:
                pass
        if not v or v.get("kind") != kind:
            return False
    return True


def replay_shard(pid, path, known):
    with open(path) as f:
        d = json.load(f)
    binary = build(pid, d.get("variant"))
    out = os.path.join(BUILD_ROOT, "replay-shard-%d.json" % os.getpid())
    cmd = [binary, "--rc", "--seed", str(d["seed"]), "--n", str(d["n"]), "--scale", str(d["scale"]), "--max-size", str(d["max_size"]),
           "--size-arg", str(d["arg"]), "--case-timeout", "30", "--out", out]
    if known:
        cmd += ["--known", ",".join(known)]
    r = subprocess.run(cmd, stdout=subprocess.PIPE, stderr=subprocess.PIPE, text=True, errors="replace", env=env_for_run())
    v = None
    try:
        with open(out) as f:
            v = json.load(f).get("violation")
        os.remove(out)
    except Exception:
        pass
    if v:
        print("SHARD-RERUN seed=%s: violation kind=%s detail=%s" % (d["seed"], v["kind"], v["detail"][:600]))
        print("CASE " + v["desc"][:1200])
        return 1
    if is_crash(r.returncode):
        sys.stderr.write(r.stderr[-4000:])
        return 1
    print("SHARD-RERUN seed=%s: %s cases, no violation" % (d["seed"], d["n"]))
    return 0


def save_replay(pid, data, tag, arg=None):
    d = os.path.join(VERIF, "replays")
    os.makedirs(d, exist_ok=True)
    h = hashlib.sha256(data).hexdigest()[:12]
    quick_arg = conf(pid)["quick"].get("arg", 0)
    suffix = "" if arg is None or arg == quick_arg else ".arg%d" % arg
    p = os.path.join(d, "%s-%s-%s%s.bin" % (pid, tag, h, suffix))
    with open(p, "wb") as f:
        f.write(data)
    return p


def check(pid, tier):
    t0 = time.time()
    os.environ["VERIF_TIER_RUNNING"] = tier
    seed = int(os.environ.get("VERIF_SEED", "1") or "1")
    cfg = conf(pid)
    tcfg = cfg[tier]
    meta = load_meta(pid)
    variants = cfg.get("variants", [cfg["variant"]])
    binaries = {v: build(pid, v) for v in variants}
    binary = binaries[variants[0]]
    known_all = [k for k in load_known() if k.get("property") == pid]
    known = [k["matcher"] for k in known_all if k.get("status") == "known"]
    violations = []   # (path, summary)
    notes = []

    # 1. known findings: replay and report while they still fail
    for k in known_all:
        if k.get("status") != "known":
            continue
        rp = os.path.join(VERIF, k["replay"])
        rc, so, se = replay_once(binary, rp, ())  # without the matcher: must still fail
        if rc == 1 or is_crash(rc):
            print("KNOWN-FINDING: property=%s %s" % (pid, k["what"]))
        else:
            print("NOTE: known finding %s no longer reproduces (input %s passes)" % (k["id"], k["replay"]))

    # 2. regression corpus (includes inputs of fixed findings): plain replays on every variant
    corpus = sorted(glob.glob(os.path.join(VERIF, "corpus", pid, "*.bin")))
    corpus_runs = 0
    for cp in corpus:
        for v in variants:
            rc, so, se = replay_once(binaries[v], cp, known)
            corpus_runs += 1
            if rc == 1 or is_crash(rc):
                ok, last = confirm_violation(binaries[v], cp, known)
                if ok:
                    lines = [l for l in so.strip().splitlines() if l.startswith("RESULT")]
                    violations.append((cp, "corpus input fails (%s): %s" % (v, lines[-1] if lines else crash_signature(rc, se))))
                    break

    # 3. generated search (+ complete enumeration where the property defines one)
    outdir = os.path.join(BUILD_ROOT, "run-%s-%d" % (pid, os.getpid()))
    shutil.rmtree(outdir, ignore_errors=True)
    os.makedirs(outdir)
    enum_total = 0
    enum_results = []
    if cfg.get("enum"):
        enum_total = int(subprocess.run([binary, "--enum-count"], stdout=subprocess.PIPE, text=True, env=env_for_run()).stdout.strip() or "0")
        with ThreadPoolExecutor(max_workers=NCPU) as ex:
            enum_results = list(ex.map(lambda k: run_enum_shard(binary, pid, k, NCPU, enum_total, outdir, known, tcfg), range(NCPU)))
        for r in enum_results:
            r["binary"] = binary
    jobs = []
    for vi, v in enumerate(variants):
        for sh in range(tcfg["shards"]):
            jobs.append((binaries[v], vi * 100 + sh, v))
    with ThreadPoolExecutor(max_workers=NCPU) as ex:
        results = list(ex.map(lambda j: run_shard(j[0], pid, seed, j[1], tcfg, outdir, known), jobs))
    for r, j in zip(results, jobs):
        r["binary"] = j[0]
        r["variant"] = j[2]
    results = enum_results + results
    fuzz_results = []
    if tier == "thorough" and cfg.get("fuzz_s", 0) > 0:
        fb = build(pid, "asanfuzz", fuzz=True)
        ninst = cfg.get("fuzz_instances", 8)
        with ThreadPoolExecutor(max_workers=NCPU) as ex:
            fuzz_results = list(ex.map(lambda k: run_fuzz_instance(fb, pid, k, seed, cfg["fuzz_s"], outdir, known, tcfg.get("arg", 0)), range(ninst)))
    agg = merge_shards(results + fuzz_results)
    dead = [r for r in results if is_crash(r["rc"])]
    inconclusive = [r for r in results if r["rc"] == 89]
    for r in inconclusive:
        notes.append("shard %d: slow without a provably stuck state (inconclusive, not a violation)" % r["shard"])

    # semantic violations (already shrunk in-process by rapidcheck): confirm 3x in fresh processes
    reported = set()
    scheduled = len(variants) > 1  # a thread schedule is part of every case (C10, C11)
    cands = agg["violations"]
    if scheduled:
        # enumerated order constraints first, the most stable in-process failures first
        cands = sorted(cands, key=lambda v: (0 if v.get("shard", 0) >= 1000 else 1, 0 if "[failed 3 of 3" in v.get("detail", "") else 1))
    confirmed = 0
    for v in cands[:16]:
        if confirmed >= 3:
            break
        data = bytes.fromhex(v["bytes_hex"])
        p = save_replay(pid, data, "viol", tcfg.get("arg", 0))
        if p in reported:
            continue
        reported.add(p)
        if scheduled:
            ok, last = confirm_violation(v["binary"], p, known, times=6, need=2)
        else:
            ok, last = confirm_violation(v["binary"], p, known)
        if ok:
            confirmed += 1
            violations.append((p, "%s: %s | case: %s" % (v["kind"], v["detail"][:400], v["desc"][:600])))
        elif not scheduled and v.get("shard", 1000) < 1000 and rerun_shard_fails(v["binary"], pid, seed, v["shard"], tcfg, known, v["kind"]):
            # The input passes on its own but the same generated SEQUENCE of cases fails again at
            # the same point: the failure needs what earlier cases of the process left behind
            # (state shared between objects, e.g. a function-local static).  The reproducible unit
            # is the shard; the replay file describes how to re-run it.
            confirmed += 1
            d = {"kind": "shard-rerun", "property": pid, "variant": variants[0], "seed": shard_seed(seed, v["shard"], pid), "n": tcfg["n"], "scale": tcfg["scale"],
                 "max_size": tcfg.get("max_size", 100), "arg": tcfg.get("arg", 0), "failing_case_alone": os.path.basename(p)}
            pj = os.path.join(VERIF, "replays", "%s-shard-%d-%d.json" % (pid, seed, v["shard"]))
            with open(pj, "w") as f:
                json.dump(d, f, indent=1)
            violations.append((pj, "%s: %s | fails only after the cases that precede it in the same process - the single case %s passes in a fresh process, the generated sequence fails every time (state shared between objects of one process) | case: %s" % (v["kind"], v["detail"][:400], os.path.basename(p), v["desc"][:500])))
        else:
            notes.append("a generated failure did not reproduce %s in fresh processes (not reported): %s (%s)" % ("2/6" if scheduled else "3/3", p, v["kind"]))
    # dead shards (sanitizer report, assertion, watchdog): shrink out of process, confirm
    seen_sig = set()
    for r in dead:
        cur = r["out"] + ".current"
        data = open(cur, "rb").read() if os.path.exists(cur) else b""
        sig = crash_signature(r["rc"], r["stderr"])
        if r["rc"] == -999:
            notes.append("shard %d exceeded its overall time budget (inconclusive, not a violation)" % r["shard"])
            continue
        if sig in seen_sig or len(seen_sig) >= 3:
            continue
        seen_sig.add(sig)
        b = r["binary"]
        p0 = save_replay(pid, data, "crash-raw", tcfg.get("arg", 0))
        rc, so, se = replay_once(b, p0, known)
        if not is_crash(rc) and r["rc"] == 88 and "POOL-STUCK" not in r["stderr"]:
            # the per-case stopwatch expired but the same input returns normally in a fresh
            # process: slowness under load, inconclusive by design (time is never a verdict)
            notes.append("shard %d: a case exceeded the per-case watchdog but its input returns normally when replayed (inconclusive, not a violation): %s" % (r["shard"], p0))
            continue
        if not is_crash(rc):
            # the process died, but not because of this input alone (schedule-dependent, or state
            # leaked from earlier cases): still a failure of the run, reported with what we have
            sys.stderr.write(r["stderr"][-4000:] + "\n")
            violations.append((p0, "process died: %s (the last input alone does not reproduce it; output above)" % sig))
            continue
        sig = crash_signature(rc, se)
        small = shrink_crash(b, data, sig, budget_s=45 if tier == "quick" else 120, known=known, arg=arg_of(p0))
        p = save_replay(pid, small, "crash", tcfg.get("arg", 0))
        if p0 != p and os.path.exists(p0):
            os.remove(p0)
        ok, last = confirm_violation(b, p, known)
        rc2, so2, se2 = replay_once(b, p, known)
        desc = ""
        for line in so2.splitlines():
            if line.startswith("CASE "):
                desc = line[5:700]
        if ok:
            violations.append((p, "%s | case: %s" % (sig, desc)))
        elif sig == "non-termination (case watchdog)":
            # the stopwatch expired in some replays and not in others, with no provably stuck
            # state: slowness (load, perturbation plan), inconclusive by design - time alone is
            # never a verdict; a genuine hang (D14) expires in every replay
            notes.append("shard %d: a case exceeded the per-case watchdog in some replays only (inconclusive, not a violation): %s | case: %s" % (r["shard"], p, desc[:300]))
        else:
            sys.stderr.write(r["stderr"][-4000:] + "\n")
            violations.append((p, "process died: %s (reproduces only sometimes; output above) | case: %s" % (sig, desc)))
    # libFuzzer artifacts: only crash-/leak- files count (slow-unit / oom / timeout are load noise);
    # each is replayed with the ordinary replay binary before it is reported
    fuzz_execs = 0
    for fr in fuzz_results:
        fuzz_execs += fr["execs"]
        for a in fr["artifacts"][:2]:
            data = open(a, "rb").read()
            p = save_replay(pid, data, "fuzz", tcfg.get("arg", 0))
            ok, last = confirm_violation(binary, p, known)
            if ok:
                rc2, so2, se2 = replay_once(binary, p, known)
                lines = [l for l in so2.splitlines() if l.startswith(("RESULT", "CASE"))]
                violations.append((p, "found by libFuzzer: %s" % (" | ".join(l[:500] for l in lines) or crash_signature(rc2, se2))))
            else:
                notes.append("a libFuzzer artifact does not fail in the replay binary (not reported): %s" % p)
    shutil.rmtree(outdir, ignore_errors=True)

    agg["evaluations"] += corpus_runs
    expected = tcfg["shards"] * len(variants) * tcfg["n"] + enum_total
    extra = {"shards": tcfg["shards"] * len(variants), "cases_per_shard": tcfg["n"], "corpus_replays": corpus_runs,
             "variants": {v: VARIANTS[v] for v in variants}, "build": [os.path.basename(os.path.dirname(binaries[v])) for v in variants],
             "dead_shards": len(dead), "inconclusive_shards": len(inconclusive), "planned_cases": expected,
             "shard_exit_codes": [r["rc"] for r in results]}
    if fuzz_results:
        extra["libfuzzer"] = {"instances": len(fuzz_results), "seconds_each": cfg["fuzz_s"], "executions": fuzz_execs,
                              "note": "coverage-guided mutation of the same byte-string cases; executions are included in 'evaluations' through the target's own counters"}
    if cfg.get("enum"):
        enum_done = all(r["rc"] == 0 for r in enum_results)
        extra["enumerated_cases"] = enum_total
        extra["enumeration_complete"] = enum_done
        extra["exhaustive"] = bool(enum_done and enum_total > 0)
        extra["exhaustive_scope"] = "the enumerated sub-space described in rule (generated cases beyond it are sampled)"
    write_evidence(pid, tier, seed, meta.get("level", "exploration"), agg, time.time() - t0, meta["rule"], meta["assumptions"],
                   len(violations), extra)
    for n_ in notes:
        print("NOTE: " + n_)
    for p, summary in violations:
        print("VIOLATION property=%s replay=%s" % (pid, p))
        print("  " + summary)
    print("%s %s: %d cases (%d non-trivial, %d distinct non-trivial), %d discards, %d known-finding exclusions, %.0fs -> %s" % (
        pid, tier, agg["evaluations"], agg["nontrivial"], len(agg["hashes"]), agg["discards"],
        sum(agg["known_excluded"].values()), time.time() - t0, "VIOLATION" if violations else "ok"))
    return 1 if violations else 0


def main():
    if len(sys.argv) < 2:
        print(__doc__)
        return 64
    cmd = sys.argv[1]
    if cmd == "check":
        pid = sys.argv[2]
        tier = sys.argv[3] if len(sys.argv) > 3 else os.environ.get("VERIF_TIER", "quick")
        return check(pid, tier)
    if cmd == "build":
        ids = sys.argv[2:]
        if not ids or ids == ["all"]:
            ids = sorted(os.path.basename(p)[:-4] for p in glob.glob(os.path.join(PROPS, "C??.cpp")))
        jobs = []
        for pid in ids:
            c = conf(pid)
            for v in c.get("variants", [c["variant"]]):
                jobs.append((pid, v))
        # adapters of each variant first (one at a time), then all property binaries in parallel
        for v in sorted(set(v for _, v in jobs)):
            first = next(p for p, vv in jobs if vv == v and conf(p)["adapters"])
            build(first, v)
        with ThreadPoolExecutor(max_workers=NCPU) as ex:
            list(ex.map(lambda j: build(j[0], j[1]), jobs))
        return 0
    if cmd == "replay":
        pid, path = sys.argv[2], sys.argv[3]
        known = [k["matcher"] for k in load_known() if k.get("property") == pid and k.get("status") == "known"]
        if path.endswith(".json"):
            rc = replay_shard(pid, path, known)
            if rc:
                print("VIOLATION property=%s replay=%s" % (pid, path))
            return rc
        binary = build(pid)
        rc, so, se = replay_once(binary, path, known)
        sys.stdout.write(so)
        sys.stderr.write(se[-8000:])
        if rc == 1 or is_crash(rc):
            print("VIOLATION property=%s replay=%s" % (pid, path))
            return 1
        return 0
    print(__doc__)
    return 64


if __name__ == "__main__":
    sys.exit(main())
