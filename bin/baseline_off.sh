#!/bin/sh
# Builds and runs the repository's own test suite with the verification guard OFF
# (FASTSCAPELIB_VERIF_HOOKS is never defined by the repository's build).
set -e
B=${VERIF_BASELINE_BUILD:-/repo/_build}
cmake -G Ninja -S /repo -B "$B" -DFS_BUILD_TESTS=ON -DCMAKE_BUILD_TYPE=RelWithDebInfo -DCMAKE_CXX_FLAGS=-Wno-error -DGTest_DIR=/root/miniconda/lib/cmake/GTest >/dev/null
cmake --build "$B" -j16 >/dev/null
ctest --test-dir "$B" -j8 --timeout 900 "$@"
