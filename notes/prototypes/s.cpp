#include <iostream>
#include <vector>
#include <cmath>
#include <random>
#include "xtensor/xtensor.hpp"
#include "xtensor/xarray.hpp"
#include "fastscapelib/grid/raster_grid.hpp"
#include "fastscapelib/flow/flow_graph.hpp"
#include "fastscapelib/flow/flow_router.hpp"
#include "fastscapelib/flow/sink_resolver.hpp"
#include "fastscapelib/eroders/spl.hpp"
namespace fs = fastscapelib; typedef long double LD;
int main(){ std::mt19937 rng(9); std::uniform_real_distribution<double> U(0,1); int cases=0,bad=0; double worst_lin=0, worst_nl=0; long checked=0, limited=0, lakes=0;
 for (int it=0; it<4000 && bad<10; ++it){ size_t nr=2+rng()%7, nc=2+rng()%7; size_t N=nr*nc; using G=fs::raster_grid<>; G grid({nr,nc},{1.0+U(rng),0.5+U(rng)}, fs::node_status::fixed_value);
  bool multi = rng()%3==0; int prog = rng()%3; using FG=fs::flow_graph<G>;
  auto mk=[&]()->FG{ if (multi) return prog==0? FG(grid,{fs::multi_flow_router(1.0)}) : FG(grid,{fs::pflood_sink_resolver(), fs::multi_flow_router(1.5)});
     if (prog==0) return FG(grid,{fs::single_flow_router()}); if (prog==1) return FG(grid,{fs::pflood_sink_resolver(), fs::single_flow_router()}); return FG(grid,{fs::single_flow_router(), fs::mst_sink_resolver()}); };
  FG g = mk(); xt::xarray<double> z0 = xt::zeros<double>({nr,nc}); int k=2+rng()%6; for (auto& v: z0) v = (rng()%2)? (double)(rng()%k) : 10*U(rng);
  xt::xarray<double> z = g.update_routes(z0); xt::xarray<double> A = g.accumulate(1.0);
  double nexp[] = {0.5,0.8,1.0,1.5,2.0,3.0}; double n = multi? 1.0 : nexp[rng()%6]; double m = (double[]){0.0,0.4,0.5,1.0,2.0}[rng()%5];
  double K = std::pow(10.0,(int)(rng()%9)-6)*(0.5+U(rng)); double dt = std::pow(10.0,(int)(rng()%8)-2); double tol = std::pow(10.0,-(int)(rng()%7)-2);
  fs::spl_eroder<FG> e(g, K, m, n, tol); xt::xarray<double> er = e.erode(z, A, dt);
  const auto& im = g.impl(); const auto& rec=im.receivers(); const auto& cnt=im.receivers_count(); const auto& w=im.receivers_weight(); const auto& d=im.receivers_distance();
  size_t nlim=0;
  for (size_t i=0;i<N;++i){ double ei=er.flat(i); if (!std::isfinite(ei)){bad++; std::cout<<"nonfinite\n"; continue;}
    if (cnt(i)==1 && rec(i,0)==i){ if (ei!=0){bad++; std::cout<<"terminal eroded\n";} continue; }
    double fl = 1.7e308; for (size_t r=0;r<cnt(i);++r){ double v = z.flat(rec(i,r)) - er.flat(rec(i,r)); fl=std::min(fl,v);} 
    if (z.flat(i) <= fl){ lakes++; if (ei!=0){bad++; std::cout<<"lake eroded\n";} continue; }
    if (ei < -4e-16*(std::fabs(z.flat(i))+std::fabs(fl))){bad++; std::cout<<"negative erosion "<<ei<<"\n";}
    double znew = z.flat(i)-ei; if (znew < fl - 4e-16*(std::fabs(z.flat(i))+std::fabs(fl)) ){bad++; std::cout<<"below floor\n";}
    double elim = z.flat(i) - (fl + std::numeric_limits<double>::min()); if (ei==elim){ nlim++; limited++; continue; }
    LD R = (LD)znew - z.flat(i); LD scale = std::fabs(znew)+std::fabs(z.flat(i)); bool skip=false;
    for (size_t r=0;r<cnt(i);++r){ size_t j=rec(i,r); if (z.flat(j) > z.flat(i)) continue; if (z.flat(j)==z.flat(i)) {skip=true;} LD zj = (LD)z.flat(j)-er.flat(j); LD F = (LD)K*dt*powl((LD)A.flat(i)*w(i,r), m); LD drop = ((LD)znew - zj)/d(i,r); if (n==1.0) R += F*drop; else { if (drop<0) drop=0; R += F*powl(drop,n); } { LD dr = fabsl((LD)znew-zj)/d(i,r); LD deriv = (n==1.0)? F/d(i,r) : F*n*powl(dr>0?dr:1e-300L,n-1)/d(i,r); scale += deriv*(fabsl((LD)z.flat(i))+fabsl(znew)+fabsl(zj)); } }
    if (skip) continue; checked++;
    if (n==1.0){ double rel=(double)(fabsl(R)/(2.2e-16L*scale + 1e-300L)); worst_lin=std::max(worst_lin,rel); if (rel>64){bad++; std::cout<<"linear residual "<<(double)R<<" rel "<<rel<<" z "<<z.flat(i)<<" znew "<<znew<<" e "<<ei<<" nrec "<<cnt(i)<<" K*dt "<<K*dt<<" m "<<m<<" A "<<A.flat(i)<<" scale "<<(double)scale; for (size_t r=0;r<cnt(i);++r) std::cout<<" [w "<<w(i,r)<<" d "<<d(i,r)<<" zj "<<z.flat(rec(i,r))<<" ej "<<er.flat(rec(i,r))<<"]"; std::cout<<"\n";} }
    else { double rel=(double)((fabsl(R) - 64*2.2e-16L*scale)/tol); worst_nl=std::max(worst_nl,rel); if (rel>1.0+1e-9){bad++; std::cout<<"nonlinear residual "<<(double)R<<" tol "<<tol<<" n "<<n<<" K*dt "<<K*dt<<"\n";} } }
  if (nlim < e.n_corr()){bad++; std::cout<<"n_corr "<<e.n_corr()<<" > limited "<<nlim<<"\n";}
  ++cases; }
 std::cout<<"cases "<<cases<<" bad "<<bad<<" checked "<<checked<<" limited "<<limited<<" lakes "<<lakes<<" worst linear (eps units) "<<worst_lin<<" worst nonlinear (tol units) "<<worst_nl<<"\n"; }
