#include <iostream>
#include <vector>
#include <set>
#include <random>
#include <cstring>
#include "xtensor/xtensor.hpp"
#include "xtensor/xarray.hpp"
#include "fastscapelib/grid/raster_grid.hpp"
#include "fastscapelib/flow/flow_graph.hpp"
#include "fastscapelib/flow/flow_router.hpp"
#include "fastscapelib/flow/sink_resolver.hpp"
#include "fastscapelib/flow/flow_snapshot.hpp"
namespace fs = fastscapelib; static int bad=0;
template <class A, class B> bool biteq(const A& a, const B& b){ if (a.size()!=b.size()) return false; return std::memcmp(a.data(), b.data(), a.size()*sizeof(typename A::value_type))==0; }
template <class FG> std::string diff_state(FG& a, FG& b, const xt::xarray<double>& src){
  const auto& x=a.impl(); const auto& y=b.impl(); size_t N=x.size();
  if (!biteq(x.receivers_count(),y.receivers_count())) return "rcount"; if (!biteq(x.donors_count(),y.donors_count())) return "dcount";
  for(size_t i=0;i<N;++i){ for(size_t r=0;r<x.receivers_count()(i);++r){ if (x.receivers()(i,r)!=y.receivers()(i,r)) return "receivers"; if (std::memcmp(&x.receivers_weight()(i,r),&y.receivers_weight()(i,r),8)) return "weights"; if (std::memcmp(&x.receivers_distance()(i,r),&y.receivers_distance()(i,r),8)) return "distance"; }
    for(size_t q=0;q<x.donors_count()(i);++q) if (x.donors()(i,q)!=y.donors()(i,q)) return "donors"; }
  if (!biteq(x.dfs_indices(),y.dfs_indices())) return "dfs"; if (!biteq(x.bfs_indices(),y.bfs_indices())) return "bfs"; if (!biteq(x.bfs_levels(),y.bfs_levels())) return "levels";
  auto aa=a.accumulate(src), ab=b.accumulate(src); if (!biteq(aa,ab)) return "accumulate";

  if (b.single_flow()){ auto ba=a.basins(), bb=b.basins(); if (!biteq(ba,bb)) return "basins"; auto pa=a.impl_ptr()->pits(), pb=b.impl_ptr()->pits(); if (pa!=pb) return "pits"; }
  return ""; }
int main(){ std::mt19937 rng(44); int cases=0;
 for(int it=0; it<2500 && bad<8; ++it){ using G=fs::raster_grid<>; using FG=fs::flow_graph<G>; size_t nr=2+rng()%6,nc=2+rng()%6,N=nr*nc; G grid({nr,nc},{1.0,1.5}, fs::node_status::fixed_value);
  int prog=rng()%3;
  auto mkmain=[&]()->FG{ switch(prog){ case 0: return FG(grid,{fs::single_flow_router(), fs::flow_snapshot("a",true,true), fs::mst_sink_resolver(), fs::flow_snapshot("b",true,true), fs::multi_flow_router(1.0)});
                                      case 1: return FG(grid,{fs::pflood_sink_resolver(), fs::flow_snapshot("a",false,true), fs::multi_flow_router(1.5), fs::flow_snapshot("b",true,false), fs::single_flow_router()});
                                      default: return FG(grid,{fs::single_flow_router(), fs::flow_snapshot("a",true,false), fs::mst_sink_resolver(fs::mst_method::boruvka, fs::mst_route_method::basic), fs::flow_snapshot("b",true,true)}); } };
  FG M=mkmain(); xt::xarray<bool> mask=xt::zeros<bool>({nr,nc}); bool um=rng()%2; std::vector<size_t> bl=M.base_levels(); if(um){ for(size_t i=0;i<N;++i) mask.flat(i)=rng()%7==0; for(auto b:bl) mask.flat(b)=false; M.set_mask(mask);} if (rng()%2){ std::vector<size_t> nb; for(size_t i=0;i<N;++i) if(!mask.flat(i)&&rng()%5==0) nb.push_back(i); if(!nb.empty()){bl=nb; M.set_base_levels(bl);} }
  for(int upd=0; upd<2; ++upd){ xt::xarray<double> z=xt::zeros<double>({nr,nc}); int k=2+rng()%4; for(auto&v:z) v=(double)(rng()%k); M.update_routes(z); xt::xarray<double> src=xt::ones<double>({nr,nc}); for(auto&v:src) v=(double)(rng()%3);
    auto chk=[&](const char* name, FG&& P, bool graph, bool elev){ if(um) P.set_mask(mask); P.set_base_levels(bl); xt::xarray<double> fp=P.update_routes(z); if(graph){ auto d=diff_state(M.graph_snapshot(name), P, src); if(!d.empty()){bad++; std::cout<<"snapshot "<<name<<" prog "<<prog<<" differs in "<<d<<" (update "<<upd<<")\n";} } if(elev){ if(!biteq(M.elevation_snapshot(name), fp)){bad++; std::cout<<"elevation snapshot "<<name<<" prog "<<prog<<"\n";} } };
    if(prog==0){ chk("a", FG(grid,{fs::single_flow_router()}), true,true); chk("b", FG(grid,{fs::single_flow_router(), fs::mst_sink_resolver()}), true,true); }
    else if(prog==1){ chk("a", FG(grid,{fs::pflood_sink_resolver(), fs::single_flow_router()}), false,true); chk("b", FG(grid,{fs::pflood_sink_resolver(), fs::multi_flow_router(1.5)}), true,false); }
    else { chk("a", FG(grid,{fs::single_flow_router()}), true,false); chk("b", FG(grid,{fs::single_flow_router(), fs::mst_sink_resolver(fs::mst_method::boruvka, fs::mst_route_method::basic)}), true,true); }
    try { M.graph_snapshot("b").update_routes(z); bad++; std::cout<<"snapshot writable\n"; } catch (std::runtime_error&) {}
    try { M.graph_snapshot("b").set_mask(mask); bad++; std::cout<<"snapshot mask writable\n"; } catch (std::runtime_error&) {}
    try { M.graph_snapshot("b").set_base_levels(bl); bad++; std::cout<<"snapshot bl writable\n"; } catch (std::runtime_error&) {} }
  ++cases; }
 std::cout<<"cases "<<cases<<" bad "<<bad<<"\n"; }
