#include <iostream>
#include <vector>
#include <cmath>
#include <random>
#include "xtensor/xtensor.hpp"
#include "xtensor/xarray.hpp"
#include "fastscapelib/grid/raster_grid.hpp"
#include "fastscapelib/eroders/diffusion_adi.hpp"
namespace fs = fastscapelib;
typedef long double LD;
// solve dense A x = b (n small) with partial pivoting
static std::vector<LD> solve(std::vector<std::vector<LD>> A, std::vector<LD> b){ size_t n=b.size(); for(size_t k=0;k<n;++k){ size_t p=k; for(size_t i=k+1;i<n;++i) if (fabsl(A[i][k])>fabsl(A[p][k])) p=i; std::swap(A[k],A[p]); std::swap(b[k],b[p]); for(size_t i=k+1;i<n;++i){ LD f=A[i][k]/A[k][k]; if (f==0) continue; for(size_t j=k;j<n;++j) A[i][j]-=f*A[k][j]; b[i]-=f*b[k]; } } std::vector<LD> x(n); for(size_t ii=n;ii-->0;){ LD s=b[ii]; for(size_t j=ii+1;j<n;++j) s-=A[ii][j]*x[j]; x[ii]=s/A[ii][ii]; } return x; }
int main(){ std::mt19937 rng(5); std::uniform_real_distribution<double> U(0,1); double worst=0; int cases=0;
 for (int it=0; it<1500; ++it){ size_t nr=3+rng()%8, nc=3+rng()%8; double dy = std::pow(10.0, (int)(rng()%5)-2)*(1+U(rng)), dx = std::pow(10.0,(int)(rng()%5)-2)*(1+U(rng));
  using G = fs::raster_grid<>; G grid({nr,nc},{dy,dx}, (rng()%2)? fs::node_status::fixed_value : fs::node_status::looped);
  xt::xarray<double> z = xt::zeros<double>({nr,nc}); double zs = std::pow(10.0,(int)(rng()%7)-2); for (auto& v: z) v = zs*(U(rng)-0.3);
  bool var = rng()%2; xt::xtensor<double,2> K({nr,nc}); double ks = std::pow(10.0,(int)(rng()%9)-4); for (auto& v: K) v = var ? ks*std::pow(10.0, 3*U(rng)) : ks;
  double dt = std::pow(10.0,(int)(rng()%12)-4)*(0.5+U(rng)); if (rng()%20==0) dt=0;
  xt::xarray<double> er;
  if (var) { fs::diffusion_adi_eroder<G> e(grid, K); er = e.erode(z, dt); } else { fs::diffusion_adi_eroder<G> e(grid, ks); er = e.erode(z, dt); }
  auto k = [&](size_t r,size_t c)->LD{ return K(r,c); };
  LD fr = 0.25L/((LD)dy*dy), fc = 0.25L/((LD)dx*dx);
  auto fr0=[&](size_t r,size_t c){return fr*(k(r-1,c)+k(r,c));}; auto fr1=[&](size_t r,size_t c){return fr/2*(k(r-1,c)+2*k(r,c)+k(r+1,c));}; auto fr2=[&](size_t r,size_t c){return fr*(k(r,c)+k(r+1,c));};
  auto fc0=[&](size_t r,size_t c){return fc*(k(r,c-1)+k(r,c));}; auto fc1=[&](size_t r,size_t c){return fc/2*(k(r,c-1)+2*k(r,c)+k(r,c+1));}; auto fc2=[&](size_t r,size_t c){return fc*(k(r,c)+k(r,c+1));};
  std::vector<std::vector<LD>> u(nr, std::vector<LD>(nc)), us, uss; for(size_t r=0;r<nr;++r)for(size_t c=0;c<nc;++c) u[r][c]=z(r,c); us=u;
  for (size_t r=1;r+1<nr;++r){ std::vector<std::vector<LD>> A(nc, std::vector<LD>(nc,0)); std::vector<LD> b(nc); A[0][0]=1;b[0]=u[r][0]; A[nc-1][nc-1]=1;b[nc-1]=u[r][nc-1];
    for(size_t c=1;c+1<nc;++c){ A[c][c-1]=-fc0(r,c)*dt; A[c][c]=1+2*fc1(r,c)*dt; A[c][c+1]=-fc2(r,c)*dt; b[c]=(1-2*fr1(r,c)*dt)*u[r][c]+fr0(r,c)*dt*u[r-1][c]+fr2(r,c)*dt*u[r+1][c]; } auto x=solve(A,b); for(size_t c=0;c<nc;++c) us[r][c]=x[c]; }
  uss=us;
  for (size_t c=1;c+1<nc;++c){ std::vector<std::vector<LD>> A(nr, std::vector<LD>(nr,0)); std::vector<LD> b(nr); A[0][0]=1;b[0]=us[0][c]; A[nr-1][nr-1]=1;b[nr-1]=us[nr-1][c];
    for(size_t r=1;r+1<nr;++r){ A[r][r-1]=-fr0(r,c)*dt; A[r][r]=1+2*fr1(r,c)*dt; A[r][r+1]=-fr2(r,c)*dt; b[r]=(1-2*fc1(r,c)*dt)*us[r][c]+fc0(r,c)*dt*us[r][c-1]+fc2(r,c)*dt*us[r][c+1]; } auto x=solve(A,b); for(size_t r=0;r<nr;++r) uss[r][c]=x[r]; }
  LD zmax=0; for (auto v: z) zmax=std::max<LD>(zmax,fabsl(v));
  for(size_t r=0;r<nr;++r)for(size_t c=0;c<nc;++c){ LD ex = u[r][c]-uss[r][c]; LD d = fabsl((LD)er(r,c)-ex); bool border = r==0||c==0||r+1==nr||c+1==nc; if (border && er(r,c)!=0.0){ std::cout<<"border nonzero\n"; return 1;} LD kmax=0,kmin=1e300L; for (auto v: K){kmax=std::max<LD>(kmax,v);kmin=std::min<LD>(kmin,v);} LD a1 = 4*fc*kmax*dt, a2 = 4*fr*kmax*dt; LD amp = 1 + a1/(1+4*fr*kmin*dt) + a2/(1+4*fc*kmin*dt) ; double rel = (double)(d/(zmax*2.2e-16L*amp + 1e-300L)); if (rel>worst){ worst=rel; } }
  ++cases; }
 std::cout << "cases " << cases << " worst deviation in units of eps*max|z|: " << worst << "\n"; }
