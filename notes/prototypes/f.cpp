#include <iostream>
#include <vector>
#include <set>
#include <map>
#include <cmath>
#include <random>
#include <algorithm>
#include "xtensor/xtensor.hpp"
#include "xtensor/xarray.hpp"
#include "fastscapelib/grid/raster_grid.hpp"
#include "fastscapelib/flow/flow_graph.hpp"
#include "fastscapelib/flow/flow_router.hpp"
#include "fastscapelib/flow/sink_resolver.hpp"
namespace fs = fastscapelib; typedef long double LD;
static int bad=0; static long nchk=0;
#define FAIL(msg) do{ bad++; std::cout<<"FAIL "<<msg<<"\n"; }while(0)
struct Nb { size_t idx; double dist; bool operator<(const Nb& o) const { return idx<o.idx || (idx==o.idx && dist<o.dist);} bool operator==(const Nb&o) const {return idx==o.idx && dist==o.dist;} };
template <fs::raster_connect RC> std::vector<Nb> model_nb(size_t nr,size_t nc,double dy,double dx,bool vl,bool hl,size_t i){ std::vector<Nb> out; long r=i/nc,c=i%nc; for(long dr=-1;dr<=1;++dr)for(long dc=-1;dc<=1;++dc){ if(!dr&&!dc)continue; bool diag=dr&&dc; if (RC==fs::raster_connect::rook && diag) continue; if (RC==fs::raster_connect::bishop && !diag) continue; long rr=r+dr,cc=c+dc; if(rr<0||rr>=(long)nr){ if(!vl)continue; rr=(rr+nr)%nr;} if(cc<0||cc>=(long)nc){ if(!hl)continue; cc=(cc+nc)%nc;} out.push_back({(size_t)(rr*nc+cc), std::sqrt((dr?dy*dy:0)+(dc?dx*dx:0))}); } return out; }
template <fs::raster_connect RC, class C> void run(std::mt19937& rng){ using G=fs::raster_grid<fs::xt_selector,RC,C>; using FG=fs::flow_graph<G>;
  size_t nr=2+rng()%6, nc=2+rng()%6, N=nr*nc; double dy=0.5+(rng()%30)/10.0, dx=0.5+(rng()%30)/10.0; bool vl=rng()%3==0, hl=rng()%3==0;
  fs::node_status fv=fs::node_status::fixed_value, lo=fs::node_status::looped, co=fs::node_status::core; fs::node_status fg=fs::node_status::fixed_gradient;
  auto pick=[&](){ int k=rng()%3; return k==0?fv:(k==1?co:fg); };
  std::array<fs::node_status,4> st{ hl?lo:pick(), hl?lo:pick(), vl?lo:pick(), vl?lo:pick() };
  G grid({nr,nc},{dy,dx}, fs::raster_boundary_status(st));
  // C07
  std::vector<std::vector<Nb>> M(N); for(size_t i=0;i<N;++i) M[i]=model_nb<RC>(nr,nc,dy,dx,vl,hl,i);
  std::vector<size_t> order(N); for(size_t i=0;i<N;++i) order[i]=i; std::shuffle(order.begin(),order.end(),rng);
  for (size_t q=0;q<N+N/2;++q){ size_t i=order[q%N]; auto nb=grid.neighbors(i); auto ni=grid.neighbors_indices(i); auto nd=grid.neighbors_distances(i); size_t cnt=grid.neighbors_count(i);
    if (nb.size()!=cnt||ni.size()!=cnt||nd.size()!=cnt||cnt!=M[i].size()) { FAIL("count node "<<i<<" got "<<cnt<<" model "<<M[i].size()<<" shape "<<nr<<"x"<<nc<<" vl "<<vl<<" hl "<<hl<<" RC "<<(int)RC); continue; }
    std::vector<Nb> got; for(size_t k=0;k<cnt;++k){ if (nb[k].idx!=ni[k] || nb[k].distance!=nd[k]) FAIL("accessor disagreement"); if (nb[k].status!=grid.nodes_status(nb[k].idx)) FAIL("status"); got.push_back({nb[k].idx, nb[k].distance}); }
    auto a=got, b=M[i]; std::sort(a.begin(),a.end()); std::sort(b.begin(),b.end()); bool ok=a.size()==b.size(); for(size_t k=0;ok&&k<a.size();++k) ok = a[k].idx==b[k].idx && std::fabs(a[k].dist-b[k].dist)<=4e-16*b[k].dist; if(!ok) FAIL("neighbour multiset node "<<i<<" shape "<<nr<<"x"<<nc<<" vl "<<vl<<" hl "<<hl<<" RC "<<(int)RC);
    auto rn = grid.neighbors(i/nc, i%nc); for(size_t k=0;k<cnt;++k) if (rn[k].flatten_idx!=ni[k] || rn[k].row!=ni[k]/nc || rn[k].col!=ni[k]%nc || rn[k].distance!=nd[k]) FAIL("raster accessor"); nchk++; }
  // flow predicates
  xt::xarray<double> z=xt::zeros<double>({nr,nc}); int k=2+rng()%5; for(auto&v:z) v=(rng()%3)?(double)(rng()%k):(double)(rng()%100)/7.0;
  xt::xarray<bool> mask=xt::zeros<bool>({nr,nc}); bool um=rng()%3==0; if(um) for(size_t i=0;i<N;++i) mask.flat(i)=rng()%6==0;
  int prog=rng()%5; double p=(double[]){0,0.5,1,1.5,5}[rng()%5];
  auto mk=[&]()->FG{ switch(prog){ case 0: return FG(grid,{fs::single_flow_router()}); case 1: return FG(grid,{fs::multi_flow_router(p)}); case 2: return FG(grid,{fs::pflood_sink_resolver(),fs::multi_flow_router(p)}); case 3: return FG(grid,{fs::single_flow_router(),fs::mst_sink_resolver()}); default: return FG(grid,{fs::pflood_sink_resolver(),fs::single_flow_router()}); } };
  FG g=mk(); if(um) g.set_mask(mask);
  std::vector<size_t> bl; for(size_t i=0;i<N;++i) if(!mask.flat(i) && (grid.nodes_status(i)==fv ? rng()%4!=0 : rng()%15==0)) bl.push_back(i); if(bl.empty()){ for(size_t i=0;i<N;++i) if(!mask.flat(i)){bl.push_back(i);break;} } if (bl.empty()) return; g.set_base_levels(bl); std::set<size_t> B(bl.begin(),bl.end());
  // every unmasked component needs a base level for prog 3 (handled by fix anyway)
  const auto& f=g.update_routes(z); const auto& im=g.impl(); const auto& rec=im.receivers(); const auto& cnt=im.receivers_count(); const auto& w=im.receivers_weight(); const auto& d=im.receivers_distance();
  bool single = g.single_flow();
  for(size_t i=0;i<N;++i){ bool term = mask.flat(i)||B.count(i); std::vector<Nb> lower; LD smax=-1; for(auto&n:M[i]) if(!mask.flat(n.idx) && f.flat(n.idx)<f.flat(i)){ lower.push_back(n); smax=std::max(smax,((LD)f.flat(i)-f.flat(n.idx))/n.dist); }
    if (term || lower.empty()){ if (prog==3 && !term) { /* mst may reroute pits */ if (cnt(i)!=1) FAIL("mst count"); } else if (!(cnt(i)==1 && rec(i,0)==i)) FAIL("terminal/pit not self prog "<<prog<<" node "<<i); continue; }
    if (single && prog!=3){ if(cnt(i)!=1) FAIL("single count"); size_t r=rec(i,0); bool found=false; for(auto&n:lower) if(n.idx==r && std::fabs(d(i,0)-n.dist)<=4e-16*n.dist){ LD s=((LD)f.flat(i)-f.flat(r))/n.dist; if (s>=smax*(1-1e-14L)) found=true; } if(!found) FAIL("not steepest prog "<<prog<<" node "<<i); if (w(i,0)!=1.0) FAIL("weight"); }
    if (!single){ std::vector<Nb> got; LD sw=0; for(size_t r=0;r<cnt(i);++r){ got.push_back({rec(i,r), d(i,r)}); sw+=w(i,r); if(!std::isfinite(w(i,r))) FAIL("weight nonfinite"); } auto a=got,b=lower; std::sort(a.begin(),a.end()); std::sort(b.begin(),b.end()); bool ok=a.size()==b.size(); for(size_t q=0;ok&&q<a.size();++q) ok=a[q].idx==b[q].idx && std::fabs(a[q].dist-b[q].dist)<=4e-16*b[q].dist; if(!ok) FAIL("multi receivers multiset node "<<i<<" got "<<a.size()<<" exp "<<b.size());
      if (fabsl(sw-1)>1e-12L*cnt(i)) FAIL("weights sum "<<(double)sw);
      // proportionality in log space
      LD lse=-INFINITY; std::vector<LD> ls; for(size_t r=0;r<cnt(i);++r){ LD s=((LD)f.flat(i)-f.flat(rec(i,r)))/d(i,r); LD l=(p==0)?0:p*logl(s); ls.push_back(l); lse = (lse==-INFINITY)? l : std::max(lse,l)+log1pl(expl(-fabsl(lse-l))); }
      for(size_t r=0;r<cnt(i);++r){ LD we=expl(ls[r]-lse); if (fabsl(we-w(i,r))>1e-9L) FAIL("weight value "<<w(i,r)<<" exp "<<(double)we<<" p "<<p); } }
    nchk++; }
  // C06
  { std::map<std::pair<size_t,size_t>,long> e; for(size_t i=0;i<N;++i) for(size_t r=0;r<cnt(i);++r) if(rec(i,r)!=i) e[{rec(i,r),i}]++; const auto& don=im.donors(); const auto& dc=im.donors_count(); for(size_t i=0;i<N;++i) for(size_t q=0;q<dc(i);++q) if(don(i,q)!=i) e[{i,don(i,q)}]--; for(auto&kv:e) if(kv.second!=0){ FAIL("donors not inverse prog "<<prog); break; }
    std::vector<size_t> pos(N,N); const auto& dfs=im.dfs_indices(); for(size_t q=0;q<N;++q){ if(dfs(q)>=N||pos[dfs(q)]!=N){FAIL("dfs perm");break;} pos[dfs(q)]=q; } for(size_t i=0;i<N;++i) for(size_t r=0;r<cnt(i);++r) if(rec(i,r)!=i && !(pos[rec(i,r)]<pos[i])) { FAIL("dfs order"); i=N; break; }
    const auto& bfs=im.bfs_indices(); const auto& lv=im.bfs_levels(); std::vector<size_t> lev(N,N); if (lv(0)!=0||lv(lv.size()-1)!=N) FAIL("levels ends"); for(size_t L=0;L+1<lv.size();++L){ if(lv(L)>=lv(L+1)) FAIL("empty level"); for(size_t q=lv(L);q<lv(L+1);++q){ if(bfs(q)>=N||lev[bfs(q)]!=N){FAIL("bfs perm");} else lev[bfs(q)]=L; } } for(size_t i=0;i<N;++i) for(size_t r=0;r<cnt(i);++r) if(rec(i,r)!=i && !(lev[rec(i,r)]<lev[i])) { FAIL("bfs level order prog "<<prog); i=N; break; } }
  // C03
  { xt::xarray<double> src=xt::zeros<double>({nr,nc}); for(auto&v:src) v=(double)(rng()%5); auto acc=g.accumulate(src); std::vector<LD> in(N,0); LD tot=0,term=0; for(size_t i=0;i<N;++i){ in[i]+=(LD)src.flat(i)*dy*dx; tot+=(LD)src.flat(i)*dy*dx; } for(size_t i=0;i<N;++i) for(size_t r=0;r<cnt(i);++r) if(rec(i,r)!=i) in[rec(i,r)]+=(LD)acc.flat(i)*w(i,r); for(size_t i=0;i<N;++i){ if (fabsl(in[i]-acc.flat(i))>1e-12L*(fabsl(in[i])+1)) { FAIL("accumulate balance prog "<<prog<<" node "<<i<<" "<<(double)in[i]<<" vs "<<acc.flat(i)); break; } if(cnt(i)==1&&rec(i,0)==i) term+=acc.flat(i); } if (fabsl(term-tot)>1e-9L*(tot+1)) FAIL("conservation "<<(double)term<<" vs "<<(double)tot); xt::xarray<double> a2=g.accumulate(2.0); xt::xarray<double> two=xt::ones<double>({nr,nc})*2.0; xt::xarray<double> a3=xt::ones<double>({nr,nc})*77.0; g.accumulate(a3,two); if(!(a2==a3)) FAIL("overloads differ"); }
  // C19
  if (single){ auto bs=g.basins(); const auto& outs=im.outlets(); size_t kk=0; const auto& dfs=im.dfs_indices(); for(size_t q=0;q<N;++q){ size_t i=dfs(q); if(mask.flat(i)){ if(bs.flat(i)!=(size_t)-1) FAIL("masked label"); continue;} if(rec(i,0)==i){ if(bs.flat(i)!=kk) FAIL("outlet label"); if (kk>=outs.size()||outs[kk]!=i) FAIL("outlets list"); kk++; } else if (bs.flat(i)!=bs.flat(rec(i,0))) FAIL("label != receiver label"); } if(kk!=outs.size()) FAIL("outlet count"); auto pits=g.impl_ptr()->pits(); std::vector<size_t> ep; for(auto o:outs) if(!B.count(o)) ep.push_back(o); if(pits!=ep) FAIL("pits"); }
}
int main(){ std::mt19937 rng(21); int cases=0; using fs::raster_connect;
 for(int it=0; it<6000 && bad<12; ++it){ switch(it%6){ case 0: run<raster_connect::queen, fs::neighbors_cache<8>>(rng); break; case 1: run<raster_connect::rook, fs::neighbors_cache<4>>(rng); break; case 2: run<raster_connect::bishop, fs::neighbors_cache<4>>(rng); break; case 3: run<raster_connect::queen, fs::neighbors_no_cache<8>>(rng); break; case 4: run<raster_connect::rook, fs::neighbors_no_cache<4>>(rng); break; default: run<raster_connect::bishop, fs::neighbors_no_cache<4>>(rng);} ++cases; }
 std::cout<<"cases "<<cases<<" bad "<<bad<<" node checks "<<nchk<<"\n"; }
