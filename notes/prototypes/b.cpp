#include <iostream>
#include <vector>
#include <map>
#include <set>
#include <cmath>
#include <random>
#include <algorithm>
#include "xtensor/xtensor.hpp"
#include "xtensor/xarray.hpp"
#include "fastscapelib/grid/raster_grid.hpp"
#include "fastscapelib/flow/flow_graph.hpp"
#include "fastscapelib/flow/flow_router.hpp"
#include "fastscapelib/flow/basin_graph.hpp"
namespace fs = fastscapelib;
struct UF { std::vector<size_t> p; UF(size_t n):p(n){ for(size_t i=0;i<n;++i)p[i]=i;} size_t f(size_t x){ while(p[x]!=x){p[x]=p[p[x]];x=p[x];} return x;} bool u(size_t a,size_t b){a=f(a);b=f(b); if(a==b) return false; p[a]=b; return true;} };
template <class G> int run(std::mt19937& rng, fs::mst_method meth, int fieldkind, long& maxdeg){
  size_t nr = 2 + rng()%11, nc = 2 + rng()%11; size_t N = nr*nc;
  fs::node_status fv = fs::node_status::fixed_value, co = fs::node_status::core;
  fs::raster_boundary_status bs = (rng()%3==0) ? fs::raster_boundary_status({co,co,co,fv}) : fs::raster_boundary_status(fv);
  G grid({nr,nc},{1.0,2.0}, bs);
  xt::xarray<double> z = xt::zeros<double>({nr,nc});
  if (fieldkind==0) { int k = 2 + rng()%4; for (size_t i=0;i<N;++i) z.flat(i) = (double)(rng()%k); }
  else if (fieldkind==1) { for (size_t i=0;i<N;++i) z.flat(i) = (double)(rng()%1000)/10.0; }
  else { for (size_t r=0;r<nr;++r) for(size_t c=0;c<nc;++c) z(r,c) = 10.0 + (nr-r)*1.0 + c*0.01; size_t np = rng()% (N/3+1); for (size_t k=0;k<np;++k){ size_t r=1+rng()%(nr>2?nr-2:1), c=1+rng()%(nc>2?nc-2:1); if (r<nr&&c<nc) z(r,c) = (rng()%2)? 0.0 : (double)(rng()%3); } }
  xt::xarray<bool> mask = xt::zeros<bool>({nr,nc}); bool use_mask = rng()%3==0;
  if (use_mask) for (size_t i=0;i<N;++i) mask.flat(i) = (rng()%6==0);
  using FG = fs::flow_graph<G>;
  FG g(grid, {fs::single_flow_router()});
  if (use_mask) g.set_mask(mask);
  std::vector<size_t> bl; for (auto b: g.base_levels()) if (!mask.flat(b)) bl.push_back(b);
  if (rng()%3==0) { bl.clear(); for (size_t i=0;i<N;++i) if (!mask.flat(i) && rng()%8==0) bl.push_back(i); }
  if (bl.empty()) return 0; g.set_base_levels(bl);
  std::set<size_t> bls(bl.begin(), bl.end());
  fs::basin_graph<typename FG::impl_type> bg(g.impl(), meth);
  int bad=0;
  for (int round=0; round<2; ++round) {
    if (round==1) for (size_t i=0;i<N;++i) if (rng()%4==0) z.flat(i) = (double)(rng()%3);
    g.update_routes(z); auto basins = g.basins();
    const auto& outlets = g.impl().outlets(); size_t nb = outlets.size();
    bool haspit=false; for (auto o: outlets) if (!bls.count(o)) haspit=true;
    bg.update_routes(z);
    const auto& edges = bg.edges(); const auto& tree = bg.tree();
    // model edges
    std::map<std::pair<size_t,size_t>, double> lowest;
    for (size_t i=0;i<N;++i){ if (mask.flat(i)) continue; size_t bi = basins.flat(i); for (auto n: grid.neighbors(i)){ if (mask.flat(n.idx)) continue; size_t bn = basins.flat(n.idx); if (bi==bn) continue; bool inner_i = !bls.count(outlets[bi]), inner_n = !bls.count(outlets[bn]); if (!inner_i && !inner_n) continue; auto key = std::minmax(bi,bn); double pe = std::max(z.flat(i), z.flat(n.idx)); auto it = lowest.find(key); if (it==lowest.end() || pe < it->second) lowest[key]=pe; } }
    std::set<std::pair<size_t,size_t>> seen; size_t nvirt=0; size_t root=(size_t)-1; std::vector<size_t> deg(nb,0);
    for (auto& e: edges){ auto key = std::minmax(e.link[0], e.link[1]); if (!seen.insert(key).second){bad++; std::cout<<"dup edge\n";}
      deg[e.link[0]]++; deg[e.link[1]]++;
      if (e.pass[0]==(size_t)-1 || e.pass[1]==(size_t)-1){ nvirt++; continue; }
      auto it = lowest.find(key); if (it==lowest.end()){bad++; std::cout<<"unexpected edge\n"; continue;}
      if (e.pass_elevation != it->second){bad++; std::cout<<"pass elevation "<<e.pass_elevation<<" vs "<<it->second<<"\n";}
      if (std::max(z.flat(e.pass[0]), z.flat(e.pass[1])) != e.pass_elevation){bad++; std::cout<<"pass nodes elevation mismatch\n";}
      if (basins.flat(e.pass[0])!=e.link[0] || basins.flat(e.pass[1])!=e.link[1]){bad++; std::cout<<"pass node basin mismatch\n";} }
    size_t nreal = edges.size()-nvirt; if (nreal != lowest.size()){bad++; std::cout<<"edge count "<<nreal<<" vs model "<<lowest.size()<<"\n";}
    size_t nouter=0; for (auto o: outlets) if (bls.count(o)) nouter++;
    if (nouter>0 && nvirt != nouter-1){bad++; std::cout<<"virtual edges "<<nvirt<<" outer "<<nouter<<"\n";}
    for (auto d: deg) maxdeg = std::max<long>(maxdeg, d);
    // tree: forest + spanning of components + weights
    UF uf(nb); std::vector<double> wt; std::set<size_t> tset;
    for (auto t: tree){ if(!tset.insert(t).second){bad++; std::cout<<"dup tree edge\n";} if (!uf.u(edges[t].link[0], edges[t].link[1])){bad++; std::cout<<"cycle in tree\n";} if (edges[t].pass[0]!=(size_t)-1) wt.push_back(edges[t].pass_elevation); }
    UF ufall(nb); for (auto& e: edges) ufall.u(e.link[0], e.link[1]);
    for (size_t a=0;a<nb;++a) for (size_t b=a+1;b<nb;++b) if ((ufall.f(a)==ufall.f(b)) != (uf.f(a)==uf.f(b))){bad++; std::cout<<"tree does not span component\n"; a=nb; break;}
    // model MST weights (kruskal on real edges after contracting virtual)
    std::vector<size_t> idx; for (size_t i=0;i<edges.size();++i) idx.push_back(i);
    std::stable_sort(idx.begin(), idx.end(), [&](size_t a, size_t b){ return edges[a].pass_elevation < edges[b].pass_elevation; });
    UF uf2(nb); std::vector<double> wm; for (auto i: idx) if (uf2.u(edges[i].link[0], edges[i].link[1]) && edges[i].pass[0]!=(size_t)-1) wm.push_back(edges[i].pass_elevation);
    std::sort(wt.begin(), wt.end()); std::sort(wm.begin(), wm.end());
    if (wt != wm){bad++; std::cout<<"MST weight sequence differs (meth "<<(int)meth<<") sizes "<<wt.size()<<" "<<wm.size()<<"\n";}
    // orientation: BFS depth from root over tree
    if (nouter>0){ for (auto& e: edges) if (e.pass[0]==(size_t)-1){ root = e.link[0]; break; } if (root==(size_t)-1) for (size_t b=0;b<nb;++b) if (bls.count(outlets[b])) {root=b;break;}
      std::vector<long> depth(nb,-1); depth[root]=0; bool ch=true; while(ch){ch=false; for (auto t: tree){ auto a=edges[t].link[0], b=edges[t].link[1]; if (depth[a]>=0 && depth[b]<0){depth[b]=depth[a]+1;ch=true;} else if (depth[b]>=0 && depth[a]<0){depth[a]=depth[b]+1;ch=true;} } }
      for (auto t: tree){ auto a=edges[t].link[0], b=edges[t].link[1]; if (depth[a]<0) continue; if (depth[b]!=depth[a]+1){bad++; std::cout<<"orientation wrong\n";} } }
    (void)haspit;
  }
  return bad;
}
int main(){ std::mt19937 rng(11); long tot=0, cases=0, maxdeg=0;
  for (int it=0; it<8000 && tot<10; ++it){ auto m = (it%2)? fs::mst_method::boruvka : fs::mst_method::kruskal; int fk = (it/2)%3;
    tot += (it%4<2) ? run<fs::raster_grid<fs::xt_selector, fs::raster_connect::queen>>(rng,m,fk,maxdeg) : run<fs::raster_grid<fs::xt_selector, fs::raster_connect::rook>>(rng,m,fk,maxdeg); ++cases; }
  std::cout << "cases " << cases << " bad " << tot << " max basin degree " << maxdeg << "\n"; }
