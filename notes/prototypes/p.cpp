#include <iostream>
#include <vector>
#include "xtensor/xtensor.hpp"
#include "xtensor/xarray.hpp"
#include "xtensor/xrandom.hpp"
#include "fastscapelib/grid/raster_grid.hpp"
#include "fastscapelib/grid/trimesh.hpp"
#include "fastscapelib/flow/flow_graph.hpp"
#include "fastscapelib/flow/flow_router.hpp"
namespace fs = fastscapelib;
int main(){
  { fs::thread_pool<std::size_t> pool(4);
    std::vector<int> hits(1000,0);
    for (int rep=0; rep<200; ++rep) { pool.resume(); pool.resize(2 + rep%5);
      pool.run_blocks(0, 1000, [&](std::size_t, std::size_t s, std::size_t e){ for (auto i=s;i<e;++i) hits[i]++; }); pool.pause(); }
    int bad=0; for (int h: hits) if (h!=200) bad++; std::cout << "bad " << bad << "\n"; }
  const size_t n = 12;
  xt::xtensor<double,2> pts({n*n,2}); for (size_t r=0;r<n;++r) for(size_t c=0;c<n;++c){ pts(r*n+c,0)=c; pts(r*n+c,1)=r; }
  xt::xtensor<size_t,2> tri({2*(n-1)*(n-1),3}); size_t t=0;
  for (size_t r=0;r+1<n;++r) for(size_t c=0;c+1<n;++c){ size_t a=r*n+c,b=a+1,d=a+n,e=d+1; tri(t,0)=a;tri(t,1)=b;tri(t,2)=d;++t; tri(t,0)=b;tri(t,1)=e;tri(t,2)=d;++t; }
  fs::trimesh grid(pts, tri);
  xt::random::seed(1);
  xt::xarray<double> z = xt::random::rand<double>({n*n});
  fs::flow_graph<fs::trimesh> gs(grid, {fs::single_flow_router()}); gs.update_routes(z);
  int diff=0;
  for (int rep=0; rep<20; ++rep) { fs::flow_graph<fs::trimesh> gp(grid, {fs::single_flow_router(2+rep%6)}); gp.update_routes(z); gp.update_routes(z); if (gs.impl().receivers() != gp.impl().receivers()) diff++; }
  std::cout << "mesh diff " << diff << "/20\n";
}
