#include <iostream>
#include <vector>
#include <set>
#include <map>
#include <cmath>
#include <random>
#include "xtensor/xtensor.hpp"
#include "xtensor/xarray.hpp"
#include "fastscapelib/grid/trimesh.hpp"
namespace fs = fastscapelib; typedef long double LD;
int main(){ std::mt19937 rng(3); std::uniform_real_distribution<double> U(-1,1); double worst_sum=0, worst_node=0; int cases=0, bad=0;
 for (int it=0; it<3000; ++it){ size_t nr=2+rng()%6, nc=2+rng()%6; double sx = std::pow(10.0,(int)(rng()%5)-2), sy = sx*(0.2+ (rng()%50)/10.0); double jit = (rng()%4)*0.1;
  size_t extra = rng()%3; size_t np = nr*nc+extra; xt::xtensor<double,2> pts({np,2});
  for(size_t r=0;r<nr;++r)for(size_t c=0;c<nc;++c){ pts(r*nc+c,0)=sx*(c+jit*U(rng)); pts(r*nc+c,1)=sy*(r+jit*U(rng)); }
  for(size_t e=0;e<extra;++e){ pts(nr*nc+e,0)=sx*(nc+2+e); pts(nr*nc+e,1)=sy*(nr+2); }
  std::vector<std::array<size_t,3>> T;
  for(size_t r=0;r+1<nr;++r)for(size_t c=0;c+1<nc;++c){ size_t a=r*nc+c,b=a+1,d=a+nc,e=d+1; std::array<size_t,3> t1,t2; if (rng()%2){ t1={a,b,d}; t2={b,e,d}; } else { t1={a,b,e}; t2={a,e,d}; }
    for (auto* t: {&t1,&t2}){ if (rng()%8==0) continue; int rot=rng()%3; std::rotate(t->begin(), t->begin()+rot, t->end()); if (rng()%2) std::swap((*t)[0],(*t)[1]); T.push_back(*t);} }
  if (T.empty()) continue;
  xt::xtensor<size_t,2> tri({T.size(),3}); for(size_t i=0;i<T.size();++i)for(int j=0;j<3;++j) tri(i,j)=T[i][j];
  fs::trimesh mesh(pts, tri);
  // model
  std::map<std::pair<size_t,size_t>,int> ec; std::vector<LD> area(np,0); LD tot=0; LD minsin=1;
  for (auto& t: T){ for(int j=0;j<3;++j){ auto k=std::minmax(t[j],t[(j+1)%3]); ec[k]++; }
    LD x[3],y[3]; for(int j=0;j<3;++j){x[j]=pts(t[j],0);y[j]=pts(t[j],1);} LD A = fabsl((x[1]-x[0])*(y[2]-y[0])-(x[2]-x[0])*(y[1]-y[0]))/2; tot+=A;
    for(int j=0;j<3;++j){ int p=j,q=(j+1)%3,rr=(j+2)%3; // vertex p: share = (|pq|^2 cot(angle at r) + |pr|^2 cot(angle at q))/8
      auto cot=[&](int v,int a,int b){ LD ux=x[a]-x[v],uy=y[a]-y[v],vx=x[b]-x[v],vy=y[b]-y[v]; LD dot=ux*vx+uy*vy, cr=fabsl(ux*vy-uy*vx); minsin=std::min(minsin, cr/(sqrtl(ux*ux+uy*uy)*sqrtl(vx*vx+vy*vy))); return dot/cr; };
      LD pq2=(x[q]-x[p])*(x[q]-x[p])+(y[q]-y[p])*(y[q]-y[p]), pr2=(x[rr]-x[p])*(x[rr]-x[p])+(y[rr]-y[p])*(y[rr]-y[p]);
      area[t[p]] += (pq2*cot(rr,p,q) + pr2*cot(q,p,rr))/8; } }
  auto na = mesh.nodes_areas(); LD s=0; for (auto v: na) s+=v;
  double rs = (double)(fabsl(s-tot)/tot); worst_sum=std::max(worst_sum, rs*(double)minsin);
  for(size_t i=0;i<np;++i){ double d=(double)(fabsl((LD)na(i)-area[i])/tot)*(double)minsin; worst_node=std::max(worst_node,d); }
  // neighbours + boundary
  std::vector<std::set<size_t>> nb(np); std::set<size_t> bnd; for (auto& kv: ec){ nb[kv.first.first].insert(kv.first.second); nb[kv.first.second].insert(kv.first.first); if (kv.second==1){bnd.insert(kv.first.first);bnd.insert(kv.first.second);} }
  for(size_t i=0;i<np;++i){ auto ni = mesh.neighbors(i); std::multiset<size_t> got; for (auto& n: ni){ got.insert(n.idx); double dd=std::hypot(pts(i,0)-pts(n.idx,0), pts(i,1)-pts(n.idx,1)); if (std::fabs(n.distance-dd)>4e-16*dd) {bad++; std::cout<<"dist\n";} }
    std::multiset<size_t> exp(nb[i].begin(), nb[i].end()); if (got!=exp){bad++; std::cout<<"nb mismatch\n";}
    bool fv = mesh.nodes_status(i)==fs::node_status::fixed_value; if (fv != (bool)bnd.count(i)){bad++; std::cout<<"boundary mismatch\n";} }
  ++cases; }
 std::cout<<"cases "<<cases<<" bad "<<bad<<" worst rel sum*minsin "<<worst_sum<<" worst node*minsin "<<worst_node<<"\n"; }
