#include <iostream>
#include <vector>
#include <set>
#include <random>
#include <cstring>
#include "xtensor/xtensor.hpp"
#include "xtensor/xarray.hpp"
#include "fastscapelib/grid/raster_grid.hpp"
#include "fastscapelib/flow/flow_graph.hpp"
#include "fastscapelib/flow/flow_router.hpp"
#include "fastscapelib/flow/sink_resolver.hpp"
#include "fastscapelib/flow/flow_snapshot.hpp"
namespace fs = fastscapelib;
static int bad=0;
template <class A, class B> bool biteq(const A& a, const B& b){ if (a.size()!=b.size()) return false; return std::memcmp(a.data(), b.data(), a.size()*sizeof(typename A::value_type))==0; }
template <class FG> std::string diff_state(FG& a, FG& b, const xt::xarray<double>& fa, const xt::xarray<double>& fb, const xt::xarray<double>& src){
  if (!biteq(fa,fb)) return "elevation"; const auto& x=a.impl(); const auto& y=b.impl(); size_t N=x.size();
  if (!biteq(x.receivers_count(),y.receivers_count())) return "rcount"; if (!biteq(x.donors_count(),y.donors_count())) return "dcount";
  for(size_t i=0;i<N;++i){ for(size_t r=0;r<x.receivers_count()(i);++r){ if (x.receivers()(i,r)!=y.receivers()(i,r)) return "receivers"; if (std::memcmp(&x.receivers_weight()(i,r),&y.receivers_weight()(i,r),8)) return "weights"; if (std::memcmp(&x.receivers_distance()(i,r),&y.receivers_distance()(i,r),8)) return "distance"; }
    std::multiset<size_t> da, db; for(size_t q=0;q<x.donors_count()(i);++q){ da.insert(x.donors()(i,q)); db.insert(y.donors()(i,q)); } if (da!=db) return "donors"; }
  if (!biteq(x.dfs_indices(),y.dfs_indices())) return "dfs"; if (!biteq(x.bfs_indices(),y.bfs_indices())) return "bfs"; if (!biteq(x.bfs_levels(),y.bfs_levels())) return "levels";
  auto aa=a.accumulate(src), ab=b.accumulate(src); if (!biteq(aa,ab)) return "accumulate";
  if (a.single_flow()){ auto ba=a.basins(), bb=b.basins(); if (!biteq(ba,bb)) return "basins"; }
  return ""; }
int main(){ std::mt19937 rng(33); int cases=0; long steps=0;
 for(int it=0; it<2500 && bad<8; ++it){ using G=fs::raster_grid<>; using FG=fs::flow_graph<G>; size_t nr=2+rng()%6,nc=2+rng()%6,N=nr*nc;
  auto mkgrid=[&](){ return G({nr,nc},{1.0,1.5}, fs::node_status::fixed_value); }; G g1=mkgrid();
  int prog=rng()%5; auto mrt=std::make_shared<fs::multi_flow_router>(1.0); auto mst=std::make_shared<fs::mst_sink_resolver>((rng()%2)?fs::mst_method::boruvka:fs::mst_method::kruskal, (rng()%2)?fs::mst_route_method::basic:fs::mst_route_method::carve);
  auto mk=[&](G& g, std::shared_ptr<fs::multi_flow_router> m, std::shared_ptr<fs::mst_sink_resolver> t)->FG{ switch(prog){ case 0: return FG(g,{fs::pflood_sink_resolver(),fs::single_flow_router()}); case 1: return FG(g,{fs::single_flow_router(), t}); case 2: return FG(g,{fs::pflood_sink_resolver(), m}); case 3: return FG(g,{fs::single_flow_router(), t, m}); default: return FG(g,{fs::single_flow_router()}); } };
  FG H = mk(g1, mrt, mst);
  xt::xarray<bool> mask=xt::zeros<bool>({nr,nc}); bool mask_set=false; std::vector<size_t> bl=H.base_levels();
  int nsteps=2+rng()%6;
  for(int s=0;s<nsteps;++s){ int op=rng()%6;
    if(op==0){ for(size_t i=0;i<N;++i) mask.flat(i)=rng()%7==0; for(auto b:bl) mask.flat(b)=false; H.set_mask(mask); mask_set=true; }
    else if(op==1){ std::vector<size_t> nb; for(size_t i=0;i<N;++i) if(!mask.flat(i)&&rng()%5==0) nb.push_back(i); if(nb.empty()) continue; std::shuffle(nb.begin(),nb.end(),rng); bl=nb; H.set_base_levels(bl); }
    else if(op==2){ mrt->m_slope_exp=(double[]){0,0.5,1,2}[rng()%4]; mst->m_route_method=(rng()%2)?fs::mst_route_method::basic:fs::mst_route_method::carve; if (getenv("CHANGE_METHOD")) mst->m_basin_method=(rng()%2)?fs::mst_method::boruvka:fs::mst_method::kruskal; }
    else { xt::xarray<double> z=xt::zeros<double>({nr,nc}); int k=1+rng()%4; for(auto&v:z) v=(double)(rng()%k); xt::xarray<double> zc=z;
      // pockets: make sure every unmasked comp has base level? fixed tree handles it
      xt::xarray<double> fh = H.update_routes(z); if(!biteq(z,zc)){bad++; std::cout<<"input modified\n";}
      G g2=mkgrid(); auto m2=std::make_shared<fs::multi_flow_router>(mrt->m_slope_exp); auto t2=std::make_shared<fs::mst_sink_resolver>(mst->m_basin_method, mst->m_route_method); FG F=mk(g2,m2,t2); if(mask_set) F.set_mask(mask); std::vector<size_t> b2=bl; std::shuffle(b2.begin(),b2.end(),rng); F.set_base_levels(b2);
      xt::xarray<double> ff = F.update_routes(z); xt::xarray<double> src=xt::ones<double>({nr,nc}); for(auto&v:src) v=(double)(rng()%3);
      auto d=diff_state(H,F,fh,ff,src); if(!d.empty()){bad++; std::cout<<"history dependence in "<<d<<" prog "<<prog<<" step "<<s<<"/"<<nsteps<<" shape "<<nr<<"x"<<nc<<"\n"; break;}
      xt::xarray<double> fh2=H.update_routes(z); auto d2=diff_state(H,F,fh2,ff,src); if(!d2.empty()){bad++; std::cout<<"repeat differs in "<<d2<<"\n"; break;} steps++; } }
  ++cases; }
 std::cout<<"cases "<<cases<<" update steps "<<steps<<" bad "<<bad<<"\n"; }
