#include <iostream>
#include <vector>
#include <cstring>
#include <cmath>
#include <random>
#include <csignal>
#include <unistd.h>
static char g_msg[4096];
static void on_alarm(int){ write(1,g_msg,strlen(g_msg)); _exit(3); }
#include "xtensor/xtensor.hpp"
#include "xtensor/xarray.hpp"
#include "fastscapelib/grid/raster_grid.hpp"
#include "fastscapelib/flow/flow_graph.hpp"
#include "fastscapelib/flow/flow_router.hpp"
#include "fastscapelib/flow/sink_resolver.hpp"
namespace fs = fastscapelib;
static int64_t ord(double d){ int64_t i; std::memcpy(&i,&d,8); return i<0 ? (int64_t)0x8000000000000000LL - i : i; }
template <class G> int run(std::mt19937& rng, int variant, bool looped){
  size_t nr = 2 + rng()%7, nc = 2 + rng()%7; size_t N = nr*nc;
  fs::node_status fv = fs::node_status::fixed_value, lo = fs::node_status::looped, co = fs::node_status::core;
  fs::raster_boundary_status bs = looped ? fs::raster_boundary_status({lo,lo,fv,co}) : fs::raster_boundary_status(fv);
  G grid({nr,nc},{1.0,2.0}, bs);
  xt::xarray<double> z = xt::zeros<double>({nr,nc});
  int k = 2 + rng()%4; double pal[6] = {0.0, 1.0, 5e-324, -1.0, 2.5, 1e-310};
  for (size_t i=0;i<N;++i) z.flat(i) = pal[rng()%k];
  xt::xarray<bool> mask = xt::zeros<bool>({nr,nc}); bool use_mask = rng()%2;
  if (use_mask) for (size_t i=0;i<N;++i) mask.flat(i) = (rng()%5==0);
  std::vector<size_t> bl; bool custom = rng()%2;
  using FG = fs::flow_graph<G>;
  auto mk = [&]() -> FG {
    switch(variant){
      case 0: return FG(grid, {fs::pflood_sink_resolver(), fs::single_flow_router()});
      case 1: return FG(grid, {fs::single_flow_router(), fs::mst_sink_resolver(fs::mst_method::kruskal, fs::mst_route_method::basic)});
      case 2: return FG(grid, {fs::single_flow_router(), fs::mst_sink_resolver(fs::mst_method::kruskal, fs::mst_route_method::carve)});
      case 3: return FG(grid, {fs::single_flow_router(), fs::mst_sink_resolver(fs::mst_method::boruvka, fs::mst_route_method::basic)});
      default: return FG(grid, {fs::single_flow_router(), fs::mst_sink_resolver(fs::mst_method::boruvka, fs::mst_route_method::carve)});
    } };
  FG g = mk();
  if (use_mask) g.set_mask(mask);
  if (custom) { for (size_t i=0;i<N;++i) if (!mask.flat(i) && rng()%6==0) bl.push_back(i); if (bl.empty()) for (size_t i=0;i<N;++i) if(!mask.flat(i)){bl.push_back(i);break;} if (bl.empty()) return 0; g.set_base_levels(bl); }
  else { bl = g.base_levels(); std::vector<size_t> b2; for (auto b: bl) if (!mask.flat(b)) b2.push_back(b); if (b2.empty()) return 0; bl=b2; g.set_base_levels(bl);} 
  { std::vector<double> lev0(N, INFINITY); std::vector<char> isb0(N,0); for (auto b: bl){ lev0[b]=0; isb0[b]=1; }
    bool ch0=true; while(ch0){ ch0=false; for (size_t i=0;i<N;++i){ if (mask.flat(i)||isb0[i]) continue; double m=INFINITY; for (auto n: grid.neighbors(i)) if(!mask.flat(n.idx)) m=std::min(m,lev0[n.idx]); if (m<lev0[i]){lev0[i]=m;ch0=true;} } }
    static long skipped=0; for (size_t i=0;i<N;++i) if (!mask.flat(i) && std::isinf(lev0[i])) { if (getenv("ALLOW_POCKETS")==nullptr) { ++skipped; return 0; } } }
  { std::string m = "HANG variant " + std::to_string(variant) + " shape " + std::to_string(nr)+"x"+std::to_string(nc)+" looped "+std::to_string(looped)+" mask "+std::to_string(use_mask)+" custom "+std::to_string(custom)+"\nz/mask/bl:\n";
    for (size_t i=0;i<N;++i){ m += (mask.flat(i)?"  X ":(std::string(" ")+std::to_string((int)(std::find(pal,pal+6,z.flat(i))-pal))+(std::find(bl.begin(),bl.end(),i)!=bl.end()?"B ":"  "))); if ((i+1)%nc==0) m+="\n"; }
    strncpy(g_msg, m.c_str(), sizeof(g_msg)-1); alarm(5); }
  const auto& f = g.update_routes(z); alarm(0);
  // oracle
  std::vector<double> lev(N, INFINITY); std::vector<char> isb(N,0); for (auto b: bl){ lev[b]=z.flat(b); isb[b]=1; }
  bool ch=true; while(ch){ ch=false; for (size_t i=0;i<N;++i){ if (mask.flat(i)||isb[i]) continue; double m=INFINITY; for (auto n: grid.neighbors(i)) if(!mask.flat(n.idx)) m=std::min(m,lev[n.idx]); double v=std::max(z.flat(i),m); if (v<lev[i]){lev[i]=v;ch=true;} } }
  int bad=0; const auto& rec = g.impl().receivers();
  for (size_t i=0;i<N;++i){
    if (mask.flat(i)||isb[i]) { if (ord(f.flat(i))!=ord(z.flat(i))) {bad++; std::cout<<"base/mask changed\n";} if (rec(i,0)!=i){bad++; std::cout<<"base/mask drains\n";} continue; }
    if (std::isinf(lev[i])) { if (f.flat(i) < z.flat(i)) bad++; continue; }
    int64_t d = ord(f.flat(i)) - ord(lev[i]);
    if (d<0 || d>(int64_t)N) { bad++; std::cout << "variant "<<variant<<" node "<<i<<" z="<<z.flat(i)<<" lev="<<lev[i]<<" f="<<f.flat(i)<<" d="<<d<<" N="<<N<<"\n"; }
    size_t c=i, steps=0; while (rec(c,0)!=c && steps<=N){ if (!(f.flat(rec(c,0)) < f.flat(c))) {bad++; std::cout<<"non-decreasing step variant "<<variant<<"\n"; break;} c=rec(c,0); ++steps; }
    if (steps>N) {bad++; std::cout<<"cycle\n";} else if (!isb[c]) { bad++; std::cout<<"variant "<<variant<<" ends at non-base "<<c<<" from "<<i<<" ("<<nr<<"x"<<nc<<") mask="<<use_mask<<" custom="<<custom<<"\n"; }
  }
  return bad;
}
int main(){ signal(SIGALRM,on_alarm); std::mt19937 rng(7); long tot=0, cases=0;
  for (int it=0; it<6000; ++it){ int v = it%5; if (getenv("NO_CARVE") && (v==2||v==4)) continue; bool lp = (it/5)%3==0;
    int b = (it%2) ? run<fs::raster_grid<fs::xt_selector, fs::raster_connect::queen>>(rng,v,lp) : run<fs::raster_grid<fs::xt_selector, fs::raster_connect::rook>>(rng,v,lp);
    tot+=b; ++cases; if (tot>15) break; }
  std::cout << "cases " << cases << " bad " << tot << "\n"; }
