// C15 -- basin graph tree is a minimum spanning tree over the lowest passes.
#define PROPERTY_ID "C15"
#include <map>
#include "flowcase.hpp"

using namespace vf;

namespace
{
    struct UF
    {
        std::vector<size_t> p;
        explicit UF(size_t n)
            : p(n)
        {
            for (size_t i = 0; i < n; ++i)
                p[i] = i;
        }
        size_t f(size_t x)
        {
            while (p[x] != x)
            {
                p[x] = p[p[x]];
                x = p[x];
            }
            return x;
        }
        bool u(size_t a, size_t b)
        {
            a = f(a);
            b = f(b);
            if (a == b)
                return false;
            p[a] = b;
            return true;
        }
    };
    const size_t NONE = static_cast<size_t>(-1);
}

static void check_case(vg::Src& s, vh::Ctx& c)
{
    FlowOpts o;
    o.grid.max_side = c.arg > 0 ? static_cast<size_t>(c.arg) : 12;
    o.grid.large_side = c.arg >= 16 ? 72 : 40;  // ~3% large grids
    o.grid.mesh_max_side = 7;
    o.every_component = !s.chance(50);
    FlowCase fc = gen_flow_case(s, o);
    int method = s.coin() ? va::MST_BORUVKA : va::MST_KRUSKAL;
    size_t rounds = s.range(1, 3);
    std::vector<std::vector<double>> fields = { fc.z };
    for (size_t r = 1; r < rounds; ++r)
        fields.push_back(vg::gen_field(s, fc.m));
    c.desc = fc.describe() + " ops=[single(0)] basin_graph(" + (method == va::MST_KRUSKAL ? "kruskal" : "boruvka") + ") rounds=" + std::to_string(rounds);
    for (size_t r = 1; r < rounds; ++r)
        c.desc += " z" + std::to_string(r) + "=" + vg::describe_field(fields[r], 0);
    c.announce();
    label_case(c, fc);
    c.label(method == va::MST_KRUSKAL ? "kruskal" : "boruvka");
    size_t n = fc.m.n;
    Built b = build(fc, { vg::op_single(0) }, c);
    auto bg = b.graph->make_basin_graph(method);
    bool nt = false;
    size_t maxdeg_seen = 0;
    for (size_t round = 0; round < rounds; ++round)
    {
        const auto& z = fields[round];
        std::string tag = "round#" + std::to_string(round + 1) + ": ";
        b.graph->update_routes(z);
        auto basins = b.graph->basins();
        auto outlets = b.graph->outlets();
        size_t nb = outlets.size();
        bg->update_routes(z);
        auto edges = bg->edges();
        auto tree = bg->tree();
        c.expect(bg->basins_count() == nb, "basins-count", tag + std::to_string(bg->basins_count()));
        std::vector<uint8_t> inner(nb, 0);
        size_t nouter = 0;
        for (size_t k = 0; k < nb; ++k)
        {
            inner[k] = !fc.isbase[outlets[k]];
            if (!inner[k])
                ++nouter;
        }
        // brute-force lowest pass per adjacent basin pair with at least one inner basin
        std::map<std::pair<size_t, size_t>, double> lowest;
        for (size_t i = 0; i < n; ++i)
        {
            if (fc.masked(i))
                continue;
            size_t bi = basins[i];
            for (auto& nbr : fc.m.nb[i])
            {
                if (fc.masked(nbr.idx))
                    continue;
                size_t bn = basins[nbr.idx];
                if (bi == bn || (!inner[bi] && !inner[bn]))
                    continue;
                auto key = std::minmax(bi, bn);
                double pe = std::max(z[i], z[nbr.idx]);
                auto it = lowest.find(key);
                if (it == lowest.end() || pe < it->second)
                    lowest[key] = pe;
            }
        }
        std::set<std::pair<size_t, size_t>> seen;
        size_t nvirt = 0, root = NONE;
        std::vector<size_t> deg(nb, 0);
        std::map<double, size_t> weight_count;
        for (size_t ei = 0; ei < edges.size(); ++ei)
        {
            auto& e = edges[ei];
            std::string et = tag + "edge " + std::to_string(ei) + " (" + std::to_string(e.link[0]) + "-" + std::to_string(e.link[1]) + ")";
            c.expect(e.link[0] < nb && e.link[1] < nb && e.link[0] != e.link[1], "edge-link", et);
            auto key = std::minmax(e.link[0], e.link[1]);
            if (!seen.insert(key).second)
                c.fail("duplicate-edge", et);
            deg[e.link[0]]++;
            deg[e.link[1]]++;
            if (e.pass[0] == NONE || e.pass[1] == NONE)
            {
                // virtual edge root - outer basin
                c.expect(e.pass[0] == NONE && e.pass[1] == NONE, "virtual-edge-pass", et);
                c.expect(!inner[e.link[0]] && !inner[e.link[1]], "virtual-edge-inner", et + " links an inner basin");
                ++nvirt;
                continue;
            }
            c.expect(e.pass[0] < n && e.pass[1] < n, "pass-range", et);
            auto it = lowest.find(key);
            if (it == lowest.end())
                c.fail("unexpected-edge", et + " joins basins that are not adjacent (or two outer basins)");
            if (!(e.pass_elevation == it->second))
                c.fail("pass-not-lowest", et + ": pass elevation " + vg::fmt(e.pass_elevation) + " but the lowest joining pair has " + vg::fmt(it->second));
            if (!(std::max(z[e.pass[0]], z[e.pass[1]]) == e.pass_elevation))
                c.fail("pass-nodes-elevation", et + ": pass nodes " + std::to_string(e.pass[0]) + "," + std::to_string(e.pass[1]) + " have max elevation " + vg::fmt(std::max(z[e.pass[0]], z[e.pass[1]])) + " but pass_elevation is " + vg::fmt(e.pass_elevation));
            if (fc.masked(e.pass[0]) || fc.masked(e.pass[1]))
                c.fail("pass-masked", et);
            if (basins[e.pass[0]] != e.link[0] || basins[e.pass[1]] != e.link[1])
                c.fail("pass-node-basin", et + ": pass node k does not lie in basin link[k]");
            double dist = -1;
            for (auto& nbr : fc.m.nb[e.pass[0]])
                if (nbr.idx == e.pass[1])
                    dist = nbr.dist;
            if (dist < 0)
                c.fail("pass-not-neighbours", et + ": pass nodes " + std::to_string(e.pass[0]) + "," + std::to_string(e.pass[1]) + " are not neighbours");
            long long ud = vg::ulpdist(dist, e.pass_length);
            if (ud < -4 || ud > 4)
                c.fail("pass-length", et + ": pass_length " + vg::fmt(e.pass_length) + " but the nodes are " + vg::fmt(dist) + " apart");
            weight_count[e.pass_elevation]++;
        }
        size_t nreal = edges.size() - nvirt;
        if (nreal != lowest.size())
            c.fail("edge-count", tag + std::to_string(nreal) + " real edges but " + std::to_string(lowest.size()) + " adjacent (inner, any) basin pairs");
        if (nouter > 0 && nvirt != nouter - 1)
            c.fail("virtual-edge-count", tag + std::to_string(nvirt) + " virtual edges for " + std::to_string(nouter) + " outer basins");
        for (auto& e : edges)
            if (e.pass[0] == NONE)
            {
                if (root == NONE)
                    root = e.link[0];
                // every virtual edge shares the root
                if (e.link[0] != root && e.link[1] != root)
                    c.fail("virtual-edge-root", tag + "virtual edges do not share one root basin");
            }
        if (root == NONE)
            for (size_t k = 0; k < nb; ++k)
                if (!inner[k])
                {
                    root = k;
                    break;
                }
        // tree: distinct edge ids, acyclic, spans every connected component of the basin graph
        UF uf(nb), ufall(nb);
        std::set<size_t> tset;
        std::vector<double> wt;
        for (auto t : tree)
        {
            c.expect(t < edges.size(), "tree-edge-range", tag + std::to_string(t));
            if (!tset.insert(t).second)
                c.fail("tree-duplicate-edge", tag + std::to_string(t));
            if (!uf.u(edges[t].link[0], edges[t].link[1]))
                c.fail("tree-cycle", tag + "tree edge " + std::to_string(t) + " closes a cycle");
            if (edges[t].pass[0] != NONE)
                wt.push_back(edges[t].pass_elevation);
        }
        for (auto& e : edges)
            ufall.u(e.link[0], e.link[1]);
        size_t reach_root = 0;
        for (size_t a = 0; a < nb; ++a)
        {
            if (root != NONE && ufall.f(a) == ufall.f(root))
            {
                ++reach_root;
                if (uf.f(a) != uf.f(root))
                    c.fail("tree-does-not-span", tag + "basin " + std::to_string(a) + " is reachable from the root through edges but not through the tree");
            }
            for (size_t bb = a + 1; bb < nb; ++bb)
                if ((ufall.f(a) == ufall.f(bb)) != (uf.f(a) == uf.f(bb)))
                    c.fail("tree-does-not-span", tag + "basins " + std::to_string(a) + "," + std::to_string(bb));
        }
        size_t tree_in_root = 0;
        for (auto t : tree)
            if (root != NONE && ufall.f(edges[t].link[0]) == ufall.f(root))
                ++tree_in_root;
        if (root != NONE && tree_in_root + 1 != reach_root)
            c.fail("tree-edge-count", tag + std::to_string(tree_in_root) + " tree edges for " + std::to_string(reach_root) + " basins reachable from the root");
        // minimum weight: all minimum spanning trees share the sorted weight sequence
        {
            std::vector<size_t> idx(edges.size());
            for (size_t i = 0; i < idx.size(); ++i)
                idx[i] = i;
            std::stable_sort(idx.begin(), idx.end(), [&](size_t a, size_t bb) { return edges[a].pass_elevation < edges[bb].pass_elevation; });
            UF uf2(nb);
            std::vector<double> wm;
            for (auto i : idx)
                if (uf2.u(edges[i].link[0], edges[i].link[1]) && edges[i].pass[0] != NONE)
                    wm.push_back(edges[i].pass_elevation);
            std::sort(wt.begin(), wt.end());
            std::sort(wm.begin(), wm.end());
            if (wt != wm)
            {
                long double st = 0, sm = 0;
                for (auto w : wt)
                    st += w;
                for (auto w : wm)
                    sm += w;
                c.fail("not-minimum", tag + "tree pass elevations sum to " + vg::fmt(static_cast<double>(st)) + " but a minimum spanning tree of the same edges has " + vg::fmt(static_cast<double>(sm)) + " (" + std::to_string(wt.size()) + " vs " + std::to_string(wm.size()) + " real edges)");
            }
        }
        // orientation: every tree edge points away from the root (depth increases by one);
        // other trees of the forest: every basin has at most one incoming edge
        if (root != NONE)
        {
            std::vector<long> depth(nb, -1);
            depth[root] = 0;
            bool ch = true;
            while (ch)
            {
                ch = false;
                for (auto t : tree)
                {
                    size_t a = edges[t].link[0], bb = edges[t].link[1];
                    if (depth[a] >= 0 && depth[bb] < 0)
                    {
                        depth[bb] = depth[a] + 1;
                        ch = true;
                    }
                    else if (depth[bb] >= 0 && depth[a] < 0)
                    {
                        depth[a] = depth[bb] + 1;
                        ch = true;
                    }
                }
            }
            std::vector<size_t> incoming(nb, 0);
            for (auto t : tree)
            {
                size_t a = edges[t].link[0], bb = edges[t].link[1];
                incoming[bb]++;
                if (depth[a] >= 0 && depth[bb] != depth[a] + 1)
                    c.fail("orientation", tag + "tree edge " + std::to_string(t) + " (" + std::to_string(a) + "->" + std::to_string(bb) + ") does not point away from the root basin " + std::to_string(root));
            }
            for (size_t k = 0; k < nb; ++k)
                if (incoming[k] > 1)
                    c.fail("orientation", tag + "basin " + std::to_string(k) + " is the far end of " + std::to_string(incoming[k]) + " tree edges");
        }
        size_t maxdeg = 0;
        for (auto d : deg)
            maxdeg = std::max(maxdeg, d);
        maxdeg_seen = std::max(maxdeg_seen, maxdeg);
        bool ties = false;
        for (auto& [w, k] : weight_count)
            if (k >= 2)
                ties = true;
        if ((nb >= 3 && ties) || maxdeg > 16)
            nt = true;
    }
    c.nontrivial = nt;
    c.label(maxdeg_seen > 16 ? "basin-degree>16" : maxdeg_seen > 8 ? "basin-degree>8" : "basin-degree<=8");
    c.label("rounds=" + std::to_string(rounds));
}
