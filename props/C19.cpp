// C19 -- basin labels partition the graph by outlet.
#define PROPERTY_ID "C19"
#include "flowcase.hpp"

using namespace vf;

static void check_basins(vh::Ctx& c, const FlowCase& fc, va::IGraph& g, const std::string& tag)
{
    size_t n = fc.m.n;
    auto lab = g.basins();
    GraphState st = g.state();
    check_wellformed(c, st, n);
    auto outlets = g.outlets();
    auto pits = g.pits();
    c.expect(lab.size() == n, "basins-size", tag);
    std::vector<size_t> want_outlets;
    size_t next = 0;
    for (size_t k = 0; k < n; ++k)
    {
        size_t i = st.dfs[k];
        if (fc.masked(i))
            continue;
        if (R(st, i, 0) == i)
        {
            if (lab[i] != next)
                c.fail("outlet-label", tag + " outlet " + std::to_string(i) + " is the " + std::to_string(next) + "-th unmasked outlet in bottom-up order but has label " + std::to_string(lab[i]));
            want_outlets.push_back(i);
            ++next;
        }
    }
    std::set<size_t> distinct;
    for (size_t i = 0; i < n; ++i)
    {
        if (fc.masked(i))
        {
            if (lab[i] != SIZE_MAX)
                c.fail("masked-label", tag + " masked node " + std::to_string(i) + " has label " + std::to_string(lab[i]));
            continue;
        }
        distinct.insert(lab[i]);
        size_t r = R(st, i, 0);
        if (lab[i] != lab[r])
            c.fail("label-differs-from-receiver", tag + " node " + std::to_string(i) + " label " + std::to_string(lab[i]) + " but its receiver " + std::to_string(r) + " has label " + std::to_string(lab[r]));
        if (lab[i] >= next)
            c.fail("label-range", tag + " node " + std::to_string(i) + " label " + std::to_string(lab[i]) + " >= number of outlets " + std::to_string(next));
    }
    if (distinct.size() != want_outlets.size())
        c.fail("label-count", tag + " " + std::to_string(distinct.size()) + " distinct labels for " + std::to_string(want_outlets.size()) + " unmasked outlets");
    // (outlets() and pits() are sets: the order in which the library lists them is its own)
    std::sort(outlets.begin(), outlets.end());
    std::sort(pits.begin(), pits.end());
    std::sort(want_outlets.begin(), want_outlets.end());
    if (outlets != want_outlets)
        c.fail("outlets", tag + " outlets() " + vg::describe_set(outlets) + " expected " + vg::describe_set(want_outlets));
    std::vector<size_t> want_pits;
    for (auto ol : want_outlets)
        if (!fc.isbase[ol])
            want_pits.push_back(ol);
    std::sort(want_pits.begin(), want_pits.end());
    if (pits != want_pits)
        c.fail("pits", tag + " pits() " + vg::describe_set(pits) + " expected outlets that are not base levels " + vg::describe_set(want_pits));
}

static void check_case(vg::Src& s, vh::Ctx& c)
{
    FlowOpts o;
    o.grid.max_side = c.arg > 0 ? static_cast<size_t>(c.arg) : 10;
    o.grid.large_side = c.arg >= 16 ? 72 : 40;  // ~3% large grids
    FlowCase fc = gen_flow_case(s, o);
    // single-direction final state
    std::vector<OpSpec> ops;
    size_t cls = s.weighted({ 80, 40, 70, 30, 36 });
    bool rerouted = false;
    switch (cls)
    {
        case 0:
            ops = { vg::op_single(thread_choice(s, true)) };
            break;
        case 1:
            ops = { vg::op_pflood(), vg::op_single(0) };
            break;
        case 2:
            ops = { vg::op_single(0), vg::op_mst(s.coin() ? va::MST_BORUVKA : va::MST_KRUSKAL, s.coin() ? va::ROUTE_BASIC : va::ROUTE_CARVE) };
            rerouted = true;
            break;
        case 3:
            ops = { vg::op_multi(1.0), vg::op_snap("m", true, false), vg::op_single(0) };
            break;
        default:
            // single-direction snapshots are flow graphs too: basins() is delineated on them as well
            ops = { vg::op_single(0), vg::op_snap("before", true, false), vg::op_mst(s.coin() ? va::MST_BORUVKA : va::MST_KRUSKAL, s.coin() ? va::ROUTE_BASIC : va::ROUTE_CARVE), vg::op_snap("after", true, s.coin()) };
            rerouted = true;
    }
    size_t rounds = s.range(1, 3);
    c.desc = fc.describe() + " ops=" + vg::describe(ops) + " rounds=" + std::to_string(rounds);
    c.announce();
    label_case(c, fc);
    c.label("prog=" + label_prog(ops));
    Built b = build(fc, ops, c);
    size_t nbasins = 0;
    for (size_t r = 0; r < rounds; ++r)
    {
        std::vector<double> z = r == 0 ? fc.z : vg::gen_field(s, fc.m);
        if (r > 0 && s.chance(128))
        {
            // new mask / base levels (and sometimes a refused call) between two rounds
            std::string what = mutate_settings(s, fc, *b.graph, false);
            c.desc += " |" + what;
            if (c.verbose)
                std::cout << "STEP" << what << std::endl;
            c.label("settings-changed-between-rounds");
        }
        b.graph->update_routes(z);
        check_basins(c, fc, *b.graph, "round#" + std::to_string(r + 1));
        if (s.coin())
            check_basins(c, fc, *b.graph, "round#" + std::to_string(r + 1) + "(repeated)");
        for (auto& key : b.graph->graph_snapshot_keys())
        {
            va::IGraph& sg = b.graph->graph_snapshot(key);
            if (sg.impl_single_flow())
                check_basins(c, fc, sg, "round#" + std::to_string(r + 1) + " snapshot '" + key + "'");
        }
        nbasins = std::max(nbasins, b.graph->outlets().size());
    }
    c.nontrivial = nbasins >= 2 && (!fc.mask.empty() || rerouted);
    c.label(nbasins >= 2 ? "basins>=2" : "basins<2");
}
