// C03 -- flow accumulation is the upstream integral and conserves the source.
#define PROPERTY_ID "C03"
#include "flowcase.hpp"

using namespace vf;

static void check_case(vg::Src& s, vh::Ctx& c)
{
    FlowOpts o;
    o.grid.max_side = c.arg > 0 ? static_cast<size_t>(c.arg) : 10;
    o.grid.large_side = c.arg >= 16 ? 72 : 40;  // ~3% large grids
    FlowCase fc = gen_flow_case(s, o);
    ProgInfo pi;
    auto ops = gen_valid_program(s, true, &pi);  // graph snapshots are routed graphs too
    size_t n = fc.m.n;
    // source: scalar or array, non-negative or signed
    bool scalar = s.chance(90);
    bool nonneg = !s.chance(90);
    std::vector<double> src(n, 0.0);
    double sc = 0;
    if (scalar)
    {
        static const double vals[] = { 1.0, 0.0, 2.5, 1e-3, 1e6, -1.0, 5e-324, 1e100 };
        sc = vals[s.u8() % 8];
        if (nonneg)
            sc = std::fabs(sc);
        for (auto& e : src)
            e = sc;
    }
    else
    {
        vg::FieldInfo fi;
        src = vg::gen_field(s, fc.m, &fi);
        // the integral of the source must stay finite: |src| <= 1e150 (x area x node count)
        for (auto& e : src)
            if (std::fabs(e) > 1e150)
                e *= 1e-200;
        if (nonneg)
            for (auto& e : src)
                e = std::fabs(e);
    }
    for (auto e : src)
        if (e < 0)
            nonneg = false;
    c.desc = fc.describe() + " ops=" + vg::describe(ops) + " src=" + (scalar ? "scalar " + vg::fmt(sc) : vg::describe_field(src, 0));
    c.announce();
    label_case(c, fc);
    c.label("prog=" + label_prog(ops));
    c.label(scalar ? "src=scalar" : "src=array");
    c.label(nonneg ? "src>=0" : "src-signed");

    Built b = build(fc, ops, c);
    b.graph->update_routes(fc.z);
    auto area = b.grid->areas();
    size_t multi_donor_nodes = 0, multi_rec_nodes = 0;
    auto check_graph = [&](va::IGraph& g, const std::string& tag, bool is_main)
    {
        GraphState st = g.state();
        check_wellformed(c, st, n);

        // overloads
        std::vector<double> acc;
        if (scalar)
        {
            auto a2 = g.accumulate(2, {}, sc, 0);
            auto a3 = g.accumulate(3, {}, sc, -12345.5);
            auto a0 = g.accumulate(0, src, 0, 0);
            auto a1 = g.accumulate(1, src, 0, 7e77);
            for (size_t i = 0; i < n; ++i)
                if (!vg::biteq(a2[i], a3[i]) || !vg::biteq(a2[i], a0[i]) || !vg::biteq(a2[i], a1[i]))
                    c.fail("overloads-disagree", tag + "node " + std::to_string(i) + ": scalar/returning " + vg::fmt(a2[i]) + " scalar/in-place " + vg::fmt(a3[i]) + " array/returning " + vg::fmt(a0[i]) + " array/in-place " + vg::fmt(a1[i]));
            acc = a2;
        }
        else
        {
            auto a0 = g.accumulate(0, src, 0, 0);
            auto a1 = g.accumulate(1, src, 0, -3.25e12);
            for (size_t i = 0; i < n; ++i)
                if (!vg::biteq(a0[i], a1[i]))
                    c.fail("overloads-disagree", tag + "node " + std::to_string(i) + ": returning " + vg::fmt(a0[i]) + " in-place " + vg::fmt(a1[i]));
            acc = a0;
        }
        // (a) local balance with my own inverse of the receiver table
        std::vector<long double> rhs(n), mag(n);
        for (size_t i = 0; i < n; ++i)
        {
            rhs[i] = static_cast<long double>(src[i]) * area[i];
            mag[i] = fabsl(rhs[i]);
        }
        size_t md = 0, mr = 0;
        bool areas_nonneg = true;
        for (auto a : area)
            if (a < 0)
                areas_nonneg = false;
        if (!areas_nonneg)
            c.label("negative-cell-area");
        std::vector<size_t> ndon(n, 0);
        for (size_t j = 0; j < n; ++j)
        {
            if (st.rec_count[j] >= 2)
                ++mr;
            for (size_t k = 0; k < st.rec_count[j]; ++k)
            {
                size_t r = R(st, j, k);
                if (r == j)
                    continue;
                long double t = static_cast<long double>(W(st, j, k)) * acc[j];
                rhs[r] += t;
                mag[r] += fabsl(t);
                ndon[r]++;
            }
        }
        for (size_t i = 0; i < n; ++i)
        {
            if (ndon[i] >= 2)
                ++md;
            if (!std::isfinite(acc[i]))
                c.fail("not-finite", tag + "acc[" + std::to_string(i) + "] = " + vg::fmt(acc[i]));
            // relative 1e-12 plus one subnormal increment per term (results near 5e-324 are rounded
            // to a multiple of the smallest subnormal)
            long double tol = 1e-12L * (mag[i] + fabsl(static_cast<long double>(acc[i]))) + static_cast<long double>(ndon[i] + 2) * 4.9406564584124654e-324L;
            if (!(fabsl(static_cast<long double>(acc[i]) - rhs[i]) <= tol))
                c.fail("local-balance", tag + "node " + std::to_string(i) + ": acc " + vg::fmt(acc[i]) + " but src*area + sum of weighted donor values = " + vg::fmt(static_cast<double>(rhs[i])) + " (" + std::to_string(ndon[i]) + " donor links)");
            // (cell areas of a mesh with obtuse boundary triangles can be negative; the clause
            // presupposes non-negative areas and is only applied then)
            if (nonneg && areas_nonneg && !(static_cast<long double>(acc[i]) >= static_cast<long double>(src[i]) * area[i] - tol))
                c.fail("below-local-contribution", tag + "node " + std::to_string(i) + ": acc " + vg::fmt(acc[i]) + " < src*area " + vg::fmt(src[i] * area[i]));
        }
        // (b) conservation: sum over terminal nodes = integral of the source
        long double total = 0, totmag = 0, term = 0;
        for (size_t i = 0; i < n; ++i)
        {
            total += static_cast<long double>(src[i]) * area[i];
            totmag += fabsl(static_cast<long double>(src[i]) * area[i]);
            if (st.rec_count[i] == 1 && R(st, i, 0) == i)
                term += acc[i];
        }
        if (!(fabsl(term - total) <= 1e-9L * totmag + 1e-300L))
            c.fail("conservation", tag + "sum over terminal nodes " + vg::fmt(static_cast<double>(term)) + " but integral of the source " + vg::fmt(static_cast<double>(total)));
        if (is_main)
        {
            multi_donor_nodes = md;
            multi_rec_nodes = mr;
        }
    };
    check_graph(*b.graph, "", true);
    for (auto& key : b.graph->graph_snapshot_keys())
    {
        check_graph(b.graph->graph_snapshot(key), "graph snapshot '" + key + "': ", false);
        c.label("snapshot-graph-checked");
    }
    c.nontrivial = multi_donor_nodes > 0 && (!pi.final_multi || multi_rec_nodes > 0);
    c.label(pi.final_multi ? "final=multi" : "final=single");
}
