// C18 -- triangular mesh connectivity, boundary and areas follow the triangles.
#define PROPERTY_ID "C18"
#include <cfloat>
#include "adapter.hpp"
#include "gen.hpp"
#include "harness.hpp"

static bool close4(double a, double b)
{
    long long d = vg::ulpdist(a, b);
    return d >= -4 && d <= 4;
}

static void check_case(vg::Src& s, vh::Ctx& c)
{
    vg::GridOpts o;
    o.raster = o.profile = false;
    o.valid_only = true;
    o.mesh_max_side = c.arg > 0 ? static_cast<size_t>(c.arg) : 6;
    va::GridSpec sp = vg::gen_grid(s, o);
    vm::ModelGrid m = vm::build_model(sp);
    c.desc = vm::describe(sp);
    c.announce();
    auto g = va::make_grid(sp);
    c.expect(g->size() == m.n, "size", "size " + std::to_string(g->size()));

    size_t isolated = 0;
    for (size_t i = 0; i < m.n; ++i)
    {
        auto idx = g->nb_indices(i);
        auto dist = g->nb_distances(i);
        auto nbs = g->nbs(i);
        c.expect(idx.size() == g->nb_count(i) && dist.size() == idx.size() && nbs.size() == idx.size(), "accessor-sizes", "node " + std::to_string(i));
        std::vector<size_t> got = idx, want;
        for (auto& n : m.nb[i])
            want.push_back(n.idx);
        std::sort(got.begin(), got.end());
        std::sort(want.begin(), want.end());
        if (std::adjacent_find(got.begin(), got.end()) != got.end())
            c.fail("duplicate-neighbour", "node " + std::to_string(i) + ": " + vg::describe_set(got));
        if (got != want)
            c.fail("neighbour-set", "node " + std::to_string(i) + ": library " + vg::describe_set(got) + " triangle edges " + vg::describe_set(want));
        for (size_t k = 0; k < idx.size(); ++k)
        {
            double dx = sp.px[i] - sp.px[idx[k]], dy = sp.py[i] - sp.py[idx[k]];
            double d = std::sqrt(dx * dx + dy * dy);
            if (!close4(d, dist[k]))
                c.fail("distance", "edge " + std::to_string(i) + "-" + std::to_string(idx[k]) + ": library " + vg::fmt(dist[k]) + " Euclidean " + vg::fmt(d));
            if (nbs[k].idx != idx[k] || !vg::biteq(nbs[k].dist, dist[k]) || nbs[k].status != g->status(idx[k]))
                c.fail("struct-accessor", "node " + std::to_string(i) + " entry " + std::to_string(k));
            // symmetry
            auto back = g->nb_indices(idx[k]);
            if (std::count(back.begin(), back.end(), i) != 1)
                c.fail("symmetry", "edge " + std::to_string(i) + "->" + std::to_string(idx[k]) + " has no unique reverse");
        }
        if (idx.empty())
            ++isolated;
    }
    // status (default: boundary nodes fixed value, all others core)
    auto st = g->status_array();
    for (size_t i = 0; i < m.n; ++i)
        if (st[i] != m.status[i])
            c.fail(sp.mesh_status_mode == 0 || (sp.mesh_status_mode == 1 && sp.overrides.empty()) ? "default-boundary-status" : "given-status",
                   "node " + std::to_string(i) + ": library " + vm::status_name(st[i]) + " expected " + vm::status_name(m.status[i]) + (m.mesh_boundary[i] ? " (on an edge of a single triangle)" : " (interior or isolated)"));
    // areas
    auto areas = g->areas();
    long double sum = 0, msum = 0, magsum = 0;
    size_t tiny_nodes = 0;
    for (size_t i = 0; i < m.n; ++i)
    {
        if (!vg::biteq(areas[i], g->area(i)))
            c.fail("area-accessors", "nodes_areas()[i] != nodes_areas(i) at " + std::to_string(i));
        bool iso = m.nb[i].empty();
        if (iso)
        {
            // a node of no triangle has a share of zero; the library gives it the smallest positive
            // normal number instead (to keep areas usable as divisors) - any non-negative value
            // that is negligible against the total is as good
            if (!(areas[i] >= 0 && areas[i] <= std::max(4 * DBL_MIN, 1e-12 * m.total_tri_area)))
                c.fail("isolated-area", "isolated node " + std::to_string(i) + " has area " + vg::fmt(areas[i]));
            ++tiny_nodes;
            continue;
        }
        sum += areas[i];
        msum += m.area[i];
        magsum += m.area_mag[i];
        // tolerance: relative 1e-9 on the magnitude of the partial (possibly cancelling) terms,
        // divided by the squared smallest sine in the mesh (conditioning of area and cotangents)
        double tol_node = 1e-10 * static_cast<double>(m.area_mag[i]) / std::max(m.min_sin * m.min_sin, 1e-300);
        if (!(std::fabs(areas[i] - static_cast<double>(m.area[i])) <= tol_node))
            c.fail("node-area", "node " + std::to_string(i) + ": library " + vg::fmt(areas[i]) + " circumcentric share " + vg::fmt(static_cast<double>(m.area[i])) + " tol " + vg::fmt(tol_node));
    }
    if (!(fabsl(sum - static_cast<long double>(m.total_tri_area)) <= 1e-10L * magsum / std::max(m.min_sin * m.min_sin, 1e-300)))
        c.fail("area-sum", "sum of node areas " + vg::fmt(static_cast<double>(sum)) + " total triangle area " + vg::fmt(m.total_tri_area));
    c.nontrivial = (m.mesh_has_hole || m.mesh_has_obtuse || isolated > 0) && !sp.tris.empty();
    c.label("status-mode=" + std::to_string(sp.mesh_status_mode));
    if (m.mesh_has_hole)
        c.label("hole-or-multi-component");
    if (m.mesh_has_obtuse)
        c.label("obtuse");
    if (isolated)
        c.label("isolated-nodes");
    size_t maxdeg = 0;
    for (auto& v : m.nb)
        maxdeg = std::max(maxdeg, v.size());
    c.label(maxdeg > 8 ? "maxdeg>8" : "maxdeg<=8");
    c.label(m.min_sin < 1e-3 ? "thin(min_sin<1e-3)" : "well-shaped");
}
