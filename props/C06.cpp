// C06 -- graph tables and traversal orders are mutually consistent.
#define PROPERTY_ID "C06"
#include "flowcase.hpp"

using namespace vf;

static void check_tables(vh::Ctx& c, const GraphState& st, size_t n, const std::string& tag)
{
    check_wellformed(c, st, n);
    // donors = inverse of receivers (distinct nodes, with multiplicity)
    auto md = model_donors(st);
    for (size_t i = 0; i < n; ++i)
    {
        if (st.don_count[i] > st.dcols)
            c.fail("donors-count", tag + " node " + std::to_string(i) + ": donors_count " + std::to_string(st.don_count[i]) + " exceeds table width");
        std::vector<size_t> got;
        for (size_t k = 0; k < st.don_count[i]; ++k)
            if (DON(st, i, k) != i)
                got.push_back(DON(st, i, k));
        auto want = md[i];
        std::sort(got.begin(), got.end());
        std::sort(want.begin(), want.end());
        if (got != want)
            c.fail("donors-not-inverse", tag + " node " + std::to_string(i) + ": donors " + vg::describe_set(got) + " but nodes having it as receiver " + vg::describe_set(want));
    }
    // dfs: permutation, receivers first
    auto perm_pos = [&](const std::vector<size_t>& order, const char* what)
    {
        if (order.size() != n)
            c.fail(std::string(what) + "-size", tag + " size " + std::to_string(order.size()));
        std::vector<size_t> pos(n, SIZE_MAX);
        for (size_t k = 0; k < n; ++k)
        {
            if (order[k] >= n)
                c.fail(std::string(what) + "-range", tag + " entry " + std::to_string(k) + " = " + std::to_string(order[k]));
            if (pos[order[k]] != SIZE_MAX)
                c.fail(std::string(what) + "-not-permutation", tag + " node " + std::to_string(order[k]) + " appears twice");
            pos[order[k]] = k;
        }
        return pos;
    };
    auto dpos = perm_pos(st.dfs, "dfs");
    auto bpos = perm_pos(st.bfs, "bfs");
    for (size_t i = 0; i < n; ++i)
        for (size_t k = 0; k < st.rec_count[i]; ++k)
        {
            size_t r = R(st, i, k);
            if (r != i && !(dpos[r] < dpos[i]))
                c.fail("dfs-order", tag + " node " + std::to_string(i) + " (position " + std::to_string(dpos[i]) + ") appears before its receiver " + std::to_string(r) + " (position " + std::to_string(dpos[r]) + ")");
        }
    // bfs levels
    const auto& lv = st.levels;
    if (lv.size() < 2 || lv.front() != 0 || lv.back() != n)
        c.fail("bfs-levels-bounds", tag + " levels " + vg::describe_set(lv));
    for (size_t k = 1; k < lv.size(); ++k)
        if (!(lv[k] > lv[k - 1]))
            c.fail("bfs-empty-level", tag + " levels " + vg::describe_set(lv));
    std::vector<size_t> level_of(n, 0);
    for (size_t L = 0; L + 1 < lv.size(); ++L)
        for (size_t k = lv[L]; k < lv[L + 1]; ++k)
            level_of[st.bfs[k]] = L;
    for (size_t i = 0; i < n; ++i)
        for (size_t k = 0; k < st.rec_count[i]; ++k)
        {
            size_t r = R(st, i, k);
            if (r != i && !(level_of[r] < level_of[i]))
                c.fail("bfs-level-order", tag + " node " + std::to_string(i) + " (level " + std::to_string(level_of[i]) + ") is not in a later level than its receiver " + std::to_string(r) + " (level " + std::to_string(level_of[r]) + ")");
        }
    (void) bpos;
    // storage order (the "any" traversal, not named in the statement but used by the same level-
    // parallel kernels): whatever order and level partition the library chooses, it has to be a
    // permutation of all nodes cut into non-empty levels from 0 to N
    {
        std::vector<uint8_t> seen(n, 0);
        bool perm = st.storage_indices.size() == n;
        for (size_t k = 0; perm && k < n; ++k)
        {
            size_t i = st.storage_indices[k];
            if (i >= n || seen[i])
                perm = false;
            else
                seen[i] = 1;
        }
        if (!perm)
            c.fail("storage-indices", tag + " the storage order is not a permutation of all nodes");
        bool ok = st.any_levels.size() >= 2 && st.any_levels.front() == 0 && st.any_levels.back() == n;
        for (size_t k = 1; ok && k < st.any_levels.size(); ++k)
            ok = st.any_levels[k] > st.any_levels[k - 1];
        if (!ok)
            c.fail("any-levels", tag + " the level boundaries of the storage order do not run from 0 to N in non-empty levels");
    }
}

static void check_case(vg::Src& s, vh::Ctx& c)
{
    FlowOpts o;
    o.grid.max_side = c.arg > 0 ? static_cast<size_t>(c.arg) : 10;
    o.grid.large_side = c.arg >= 16 ? 72 : 40;  // ~3% large grids
    o.every_component = !s.chance(64);
    FlowCase fc = gen_flow_case(s, o);
    ProgInfo pi;
    auto ops = gen_valid_program(s, true, &pi);
    size_t updates = s.range(1, 3);
    std::vector<std::vector<double>> fields = { fc.z };
    for (size_t u = 1; u < updates; ++u)
        fields.push_back(vg::gen_field(s, fc.m));
    c.desc = fc.describe() + " ops=" + vg::describe(ops) + " updates=" + std::to_string(updates);
    for (size_t u = 1; u < updates; ++u)
        c.desc += " z" + std::to_string(u + 1) + "=" + vg::describe_field(fields[u], 0);
    c.announce();
    label_case(c, fc);
    c.label("prog=" + label_prog(ops));
    c.label("updates=" + std::to_string(updates));
    Built b = build(fc, ops, c);
    auto lev = spill_levels(fc);
    bool depression = false;
    for (size_t i = 0; i < fc.m.n; ++i)
        if (!fc.masked(i) && fc.reach[i] && lev[i] > fc.z[i])
            depression = true;
    for (size_t u = 0; u < updates; ++u)
    {
        b.graph->update_routes(fields[u]);
        check_tables(c, b.graph->state(), fc.m.n, "update#" + std::to_string(u + 1));
        // snapshots are graphs too
        for (auto& key : b.graph->graph_snapshot_keys())
            check_tables(c, b.graph->graph_snapshot(key).state(), fc.m.n, "update#" + std::to_string(u + 1) + " snapshot '" + key + "'");
    }
    c.nontrivial = (pi.has_carve || pi.final_multi) && depression;
    if (pi.has_carve)
        c.label("carve");
    if (pi.final_multi)
        c.label("final=multi");
}
