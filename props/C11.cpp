// C11 -- worker pool runs each block exactly once and never hangs or races.
//
// Built twice: address+undefined (value oracle, steering, stuck detection) and
// thread sanitizer (data races in the C++ memory model; no holds).
#define PROPERTY_ID "C11"
#include <atomic>
#include <cassert>
#include <chrono>
#include <memory>
#include <thread>
#include <vector>
#include "steer.hpp"
#include "harness.hpp"

#if defined(__has_feature)
#if __has_feature(thread_sanitizer)
#define C11_TSAN 1
#endif
#endif
#ifndef C11_TSAN
#define C11_TSAN 0
#endif

using namespace vs;

namespace
{
    struct RunSpec
    {
        size_t first, last, min_size;
        unsigned delay;
    };
    struct Session
    {
        size_t resize_to;  // 0 = keep
        std::vector<RunSpec> runs;
        bool extra_pause, extra_cycle;
    };
}

static void check_case(vg::Src& s, vh::Ctx& c)
{
    vs::install();
    g_tr.steering = false;
    g_tr.reset();

    // ---- decode the history
    size_t size0 = s.weighted({ 70, 16, 60, 50, 30, 16, 14 }) + 1;  // 1..7, mostly 1 -> 2 via the map below
    if (size0 == 1)
        size0 = 2;  // simplest interesting pool
    else if (size0 == 2)
        size0 = 1;
    if (s.chance(40))
        size0 = 10;  // the size the library uses
    size_t nsess = s.range(1, 5);
    std::vector<Session> sessions;
    static const size_t sizes[] = { 0, 1, 2, 3, 4, 6, 8, 16 };
    for (size_t i = 0; i < nsess; ++i)
    {
        Session se;
        se.resize_to = sizes[s.weighted({ 90, 20, 50, 30, 30, 15, 12, 9 })];
        size_t nr = s.weighted({ 120, 16, 80, 40 });
        nr = nr == 0 ? 1 : (nr == 1 ? 0 : nr);  // mostly 1 run, sometimes none, 2 or 3
        for (size_t r = 0; r < nr; ++r)
        {
            RunSpec rs;
            rs.first = s.chance(60) ? s.range(0, 50) : 0;
            size_t len = s.weighted({ 16, 20, 60, 80, 50, 30 });
            static const size_t lens[] = { 0, 1, 3, 17, 64, 257 };
            len = lens[len] + (s.chance(100) ? s.range(0, 7) : 0);
            rs.last = rs.first + len;
            if (s.chance(10) && rs.first > 0)
                rs.last = rs.first - 1;  // empty (reversed) range
            static const size_t mins[] = { 0, 1, 2, 5, 16, 100 };
            rs.min_size = mins[s.weighted({ 140, 20, 30, 30, 20, 16 })];
            rs.delay = static_cast<unsigned>(s.weighted({ 150, 50, 40, 16 })) * 20;
            se.runs.push_back(rs);
        }
        se.extra_pause = s.chance(30);
        se.extra_cycle = s.chance(40);
        sessions.push_back(se);
    }
    // ---- steering plan (address-sanitizer build only)
    size_t nrules = C11_TSAN ? 0 : s.weighted({ 60, 80, 60, 30, 26 });
    bool classic = !C11_TSAN && s.chance(60);
    std::string plan;
    for (size_t i = 0; i < nrules; ++i)
    {
        Rule r = gen_rule(s, true);
        // aim at threads that exist in this history (worker ids below the largest pool size)
        size_t maxw = size0;
        for (auto& se : sessions)
            maxw = std::max(maxw, se.resize_to);
        if (r.tid > 0)
            r.tid = 1 + (r.tid - 1) % static_cast<int>(maxw);
        if (r.until_tid > 0)
            r.until_tid = 1 + (r.until_tid - 1) % static_cast<int>(maxw);
        // points a thread of that kind actually passes
        static const int caller_pts[] = { fsv::runtasks_before_store, fsv::runtasks_after_store, fsv::pause_spin, fsv::resume_before_notify, fsv::resume_after_notify, fsv::wait_spin, fsv::stop_before_join, fsv::wait_done, fsv::pause_done };
        static const int worker_pts[] = { fsv::pausejob_before_lock, fsv::pausejob_after_lock, fsv::pausejob_after_inc, fsv::pausejob_after_wait, fsv::worker_loop, fsv::worker_before_job, fsv::worker_after_job, fsv::worker_after_clear, fsv::worker_exit };
        if (r.tid == 0)
            r.point = caller_pts[static_cast<size_t>(r.point) % 9];
        else if (r.tid > 0)
            r.point = worker_pts[static_cast<size_t>(r.point) % 9];
        if (r.until_tid == 0)
            r.until_point = caller_pts[static_cast<size_t>(r.until_point) % 9];
        else
            r.until_point = worker_pts[static_cast<size_t>(r.until_point) % 9];
        g_tr.rules.push_back(r);
    }
    if (classic)
    {
        // the order constraint that exposes a notify issued before the wait: a worker holds
        // between ++m_paused_count and cv.wait until the caller has passed notify_all
        Rule r;
        r.point = fsv::pausejob_after_inc;
        r.tid = static_cast<int>(s.range(1, 4));
        r.occurrence = 0;
        r.action = 2;
        r.amount = 0;
        r.until_tid = 0;
        r.until_point = fsv::resume_after_notify;
        g_tr.rules.push_back(r);
    }
    for (auto& r : g_tr.rules)
        plan += describe_rule(r);
    std::string hist = "pool(" + std::to_string(size0) + ")";
    for (auto& se : sessions)
    {
        hist += " | resume; resize(" + (se.resize_to ? std::to_string(se.resize_to) : std::string("same")) + ");";
        for (auto& r : se.runs)
            hist += " run_blocks(" + std::to_string(r.first) + "," + std::to_string(r.last) + ",min=" + std::to_string(r.min_size) + ",delay=" + std::to_string(r.delay) + ");";
        hist += " pause;";
        if (se.extra_pause)
            hist += " pause;";
        if (se.extra_cycle)
            hist += " resume; pause;";
    }
    hist += " | destroy";
    c.desc = hist + (plan.empty() ? "" : " steering=" + plan) + (C11_TSAN ? " [tsan]" : " [asan]");
    c.canon = hist + plan;
    c.announce();

    // ---- run it
    g_tr.steering = !g_tr.rules.empty();
    size_t max_workers = 0;
    bool resumed_after_pause = false;
    {
        auto pool_ptr = std::make_unique<fastscapelib::thread_pool<std::size_t>>(size0);
        auto& pool = *pool_ptr;
        size_t cur_size = size0;
        bool paused_once = false;
        for (auto& se : sessions)
        {
            {
                CallScope cs(2);
                pool.resume();
            }
            if (paused_once)
                resumed_after_pause = true;
            if (se.resize_to)
            {
                CallScope cs(3);
                pool.resize(se.resize_to);
                cur_size = se.resize_to;
            }
            c.expect(pool.size() == cur_size, "pool-size", "size() = " + std::to_string(pool.size()) + " expected " + std::to_string(cur_size));
            for (auto& rs : se.runs)
            {
                size_t len = rs.last > rs.first ? rs.last - rs.first : 0;
                // per-runner slots: written by the worker (plain stores), read by the caller after
                // run_blocks returned (plain loads): value check and, under TSan, visibility check
                struct Slot
                {
                    size_t start = 0, end = 0;
                    unsigned calls = 0;
                    unsigned done = 0;
                    char pad[64];
                };
                std::vector<Slot> slots(cur_size + 2);
                std::vector<unsigned> hits(len, 0);
                std::atomic<unsigned> out_of_range{ 0 };
                size_t first = rs.first;
                unsigned delay = rs.delay;
                auto fn = [&slots, &hits, &out_of_range, first, len, delay, cur_size](std::size_t runner, std::size_t start, std::size_t end)
                {
                    if (runner >= cur_size + 2)
                    {
                        out_of_range.fetch_add(1, std::memory_order_relaxed);
                        return;
                    }
                    Slot& sl = slots[runner];
                    sl.start = start;
                    sl.end = end;
                    sl.calls++;
                    for (size_t i = start; i < end; ++i)
                    {
                        if (i < first || i - first >= len)
                            out_of_range.fetch_add(1, std::memory_order_relaxed);
                        else
                            hits[i - first]++;
                    }
                    for (unsigned d = 0; d < delay; ++d)
                        std::this_thread::yield();
                    sl.done = 1;  // last write of the callback
                };
                {
                    CallScope cs(1);
                    pool.run_blocks(rs.first, rs.last, fn, rs.min_size);
                }
                max_workers = std::max(max_workers, cur_size);
                std::string call = "run_blocks(" + std::to_string(rs.first) + "," + std::to_string(rs.last) + ",min=" + std::to_string(rs.min_size) + ") on " + std::to_string(cur_size) + " workers";
                c.expect(out_of_range.load() == 0, "index-out-of-range", call + ": callback received indices outside [first,last) or a runner id >= size + 2");
                size_t nblocks = 0;
                std::vector<std::pair<size_t, size_t>> blocks;
                for (size_t r = 0; r < slots.size(); ++r)
                {
                    if (slots[r].calls == 0)
                        continue;
                    c.expect(r < cur_size, "runner-id", call + ": runner id " + std::to_string(r) + " >= pool size");
                    c.expect(slots[r].calls == 1, "runner-twice", call + ": runner " + std::to_string(r) + " ran " + std::to_string(slots[r].calls) + " callbacks");
                    c.expect(slots[r].done == 1, "returned-before-callback-finished", call + ": run_blocks returned but the callback of runner " + std::to_string(r) + " had not finished");
                    c.expect(slots[r].end > slots[r].start, "empty-block", call + ": runner " + std::to_string(r) + " got an empty block");
                    blocks.push_back({ slots[r].start, slots[r].end });
                    ++nblocks;
                }
                for (size_t i = 0; i < len; ++i)
                    if (hits[i] != 1)
                        c.fail("not-exactly-once", call + ": index " + std::to_string(rs.first + i) + " was processed " + std::to_string(hits[i]) + " times");
                c.expect(nblocks <= cur_size, "too-many-blocks", call + ": " + std::to_string(nblocks) + " blocks");
                if (len == 0)
                    c.expect(nblocks == 0, "callback-on-empty-range", call);
                std::sort(blocks.begin(), blocks.end());
                for (size_t b = 0; b < blocks.size(); ++b)
                {
                    size_t expect_start = b == 0 ? rs.first : blocks[b - 1].second;
                    c.expect(blocks[b].first == expect_start, "blocks-not-contiguous", call + ": block " + std::to_string(b) + " starts at " + std::to_string(blocks[b].first));
                }
                if (!blocks.empty())
                    c.expect(blocks.back().second == rs.last, "blocks-end", call + ": last block ends at " + std::to_string(blocks.back().second));
            }
            {
                CallScope cs(4);
                pool.pause();
            }
            paused_once = true;
            c.expect(pool.paused(), "paused-flag", "paused() is false after pause()");
            if (se.extra_pause)
            {
                CallScope cs(4);
                pool.pause();
            }
            if (se.extra_cycle)
            {
                {
                    CallScope cs(2);
                    pool.resume();
                }
                resumed_after_pause = true;
                {
                    CallScope cs(4);
                    pool.pause();
                }
            }
        }
        CallScope cs(5);  // destruction (stop + join)
        pool_ptr.reset();
    }
    g_tr.call_started_ms = 0;
    g_tr.steering = false;
    unsigned fired = 0;
    for (auto& r : g_tr.rules)
        fired += r.fired.load();
    c.label("sessions=" + std::to_string(sessions.size()));
    c.label(max_workers >= 2 ? "workers>=2" : "workers<2");
    if (resumed_after_pause)
        c.label("pause->resume");
    if (fired)
        c.label("steering-fired");
    if (classic)
        c.label("lost-wakeup-order-constraint");
    // pause -> destroy happens in every history, pause -> resume in most; non-trivial = at least
    // two workers and (address build) a steering rule that actually fired
    c.nontrivial = max_workers >= 2 && (C11_TSAN || fired > 0);
}
