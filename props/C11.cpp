// C11 -- worker pool runs each block exactly once and never hangs or races.
//
// Built twice: address+undefined (value oracle, steering, stuck detection) and
// thread sanitizer (data races in the C++ memory model; no holds).
#define PROPERTY_ID "C11"
#define VH_HAS_ENUM
#include <atomic>
#include <cassert>
#include <chrono>
#include <memory>
#include <thread>
#include <vector>
#include "steer.hpp"
#include "harness.hpp"

#if defined(__has_feature)
#if __has_feature(thread_sanitizer)
#define C11_TSAN 1
#endif
#endif
#ifndef C11_TSAN
#define C11_TSAN 0
#endif

using namespace vs;

namespace
{
    struct RunSpec
    {
        size_t first, last, min_size;
        unsigned delay;
    };
    struct Session
    {
        size_t resize_to;  // 0 = keep
        std::vector<RunSpec> runs;
        bool extra_pause, extra_cycle;
    };
}

// Systematic schedule exploration (address build): for two reference histories, EVERY single
// order constraint "thread t, at its k-th passage (k = 1..3) of schedule point p, holds until thread
// u has passed schedule point q" over all threads of the history, all points a thread of that kind
// passes and u != t.  Holds are bounded (25 ms), so a constraint that cannot be satisfied only
// delays.  Encoded as {0xEE, history, t, p, k, u, q}.
static const int ENUM_CALLER_PTS[] = { fsv::runtasks_before_store, fsv::runtasks_after_store, fsv::pause_spin, fsv::resume_before_notify, fsv::resume_after_notify, fsv::wait_spin, fsv::stop_before_join, fsv::wait_done, fsv::pause_done };
static const int ENUM_WORKER_PTS[] = { fsv::pausejob_before_lock, fsv::pausejob_after_lock, fsv::pausejob_after_inc, fsv::pausejob_after_wait, fsv::worker_loop, fsv::worker_before_job, fsv::worker_after_job, fsv::worker_after_clear, fsv::worker_exit };
static const size_t ENUM_THREADS[2] = { 3, 4 };  // caller + 2 workers ; caller + 3 workers
static size_t enum_count()
{
    size_t n = 0;
    for (size_t h = 0; h < 2; ++h)
        n += ENUM_THREADS[h] * 9 * 3 * (ENUM_THREADS[h] - 1) * 9;
    return n;
}
static std::vector<uint8_t> enum_case(size_t k)
{
    size_t h = 0;
    size_t per0 = ENUM_THREADS[0] * 9 * 3 * (ENUM_THREADS[0] - 1) * 9;
    if (k >= per0)
    {
        h = 1;
        k -= per0;
    }
    size_t nt = ENUM_THREADS[h];
    size_t q = k % 9;
    k /= 9;
    size_t u = k % (nt - 1);
    k /= (nt - 1);
    size_t occ = k % 3;
    k /= 3;
    size_t p = k % 9;
    k /= 9;
    size_t t = k % nt;
    if (u >= t)
        ++u;  // u != t
    return { 0xEE, static_cast<uint8_t>(h), static_cast<uint8_t>(t), static_cast<uint8_t>(p), static_cast<uint8_t>(occ + 1), static_cast<uint8_t>(u), static_cast<uint8_t>(q) };
}

static void check_case(vg::Src& s, vh::Ctx& c)
{
    vs::install();
    bool enumerated = !C11_TSAN && s.n > 0 && s.d[0] == 0xEE;
    g_tr.steering = false;
    g_tr.reset();

    // ---- decode the history
    size_t enum_h = 0, enum_t = 0, enum_p = 0, enum_occ = 1, enum_u = 0, enum_q = 0;
    if (enumerated)
    {
        s.u8();
        enum_h = s.u8() % 2;
        enum_t = s.u8() % ENUM_THREADS[enum_h];
        enum_p = s.u8() % 9;
        enum_occ = 1 + s.u8() % 3;
        enum_u = s.u8() % ENUM_THREADS[enum_h];
        enum_q = s.u8() % 9;
    }
    size_t size0 = s.weighted({ 70, 16, 60, 50, 30, 16, 14 }) + 1;  // 1..7, mostly 1 -> 2 via the map below
    if (size0 == 1)
        size0 = 2;  // simplest interesting pool
    else if (size0 == 2)
        size0 = 1;
    if (s.chance(40))
        size0 = 10;  // the size the library uses
    size_t nsess = s.range(1, 5);
    std::vector<Session> sessions;
    static const size_t sizes[] = { 0, 1, 2, 3, 4, 6, 8, 16 };
    for (size_t i = 0; i < nsess; ++i)
    {
        Session se;
        se.resize_to = sizes[s.weighted({ 90, 20, 50, 30, 30, 15, 12, 9 })];
        size_t nr = s.weighted({ 120, 16, 80, 40 });
        nr = nr == 0 ? 1 : (nr == 1 ? 0 : nr);  // mostly 1 run, sometimes none, 2 or 3
        for (size_t r = 0; r < nr; ++r)
        {
            RunSpec rs;
            rs.first = s.chance(60) ? s.range(0, 50) : 0;
            size_t len = s.weighted({ 16, 20, 60, 80, 50, 30 });
            static const size_t lens[] = { 0, 1, 3, 17, 64, 257 };
            len = lens[len] + (s.chance(100) ? s.range(0, 7) : 0);
            rs.last = rs.first + len;
            if (s.chance(10) && rs.first > 0)
                rs.last = rs.first - 1;  // empty (reversed) range
            static const size_t mins[] = { 0, 1, 2, 5, 16, 100 };
            rs.min_size = mins[s.weighted({ 140, 20, 30, 30, 20, 16 })];
            rs.delay = static_cast<unsigned>(s.weighted({ 150, 50, 40, 16 })) * 20;
            se.runs.push_back(rs);
        }
        se.extra_pause = s.chance(30);
        se.extra_cycle = s.chance(40);
        sessions.push_back(se);
    }
    // ---- steering plan (address-sanitizer build only)
    size_t nrules = C11_TSAN ? 0 : s.weighted({ 60, 80, 60, 30, 26 });
    bool classic = !C11_TSAN && s.chance(60);
    std::string plan;
    for (size_t i = 0; i < nrules; ++i)
    {
        Rule r = gen_rule(s, true);
        // aim at threads that exist in this history (worker ids below the largest pool size)
        size_t maxw = size0;
        for (auto& se : sessions)
            maxw = std::max(maxw, se.resize_to);
        if (r.tid > 0)
            r.tid = 1 + (r.tid - 1) % static_cast<int>(maxw);
        if (r.until_tid > 0)
            r.until_tid = 1 + (r.until_tid - 1) % static_cast<int>(maxw);
        // points a thread of that kind actually passes
        static const int caller_pts[] = { fsv::runtasks_before_store, fsv::runtasks_after_store, fsv::pause_spin, fsv::resume_before_notify, fsv::resume_after_notify, fsv::wait_spin, fsv::stop_before_join, fsv::wait_done, fsv::pause_done };
        static const int worker_pts[] = { fsv::pausejob_before_lock, fsv::pausejob_after_lock, fsv::pausejob_after_inc, fsv::pausejob_after_wait, fsv::worker_loop, fsv::worker_before_job, fsv::worker_after_job, fsv::worker_after_clear, fsv::worker_exit };
        if (r.tid == 0)
            r.point = caller_pts[static_cast<size_t>(r.point) % 9];
        else if (r.tid > 0)
            r.point = worker_pts[static_cast<size_t>(r.point) % 9];
        if (r.until_tid == 0)
            r.until_point = caller_pts[static_cast<size_t>(r.until_point) % 9];
        else
            r.until_point = worker_pts[static_cast<size_t>(r.until_point) % 9];
        g_tr.rules.push_back(r);
    }
    if (classic)
    {
        // the order constraint that exposes a notify issued before the wait: a worker holds
        // between ++m_paused_count and cv.wait until the caller has passed notify_all
        Rule r;
        r.point = fsv::pausejob_after_inc;
        r.tid = static_cast<int>(s.range(1, 4));
        r.occurrence = 0;
        r.action = 2;
        r.amount = 0;
        r.until_tid = 0;
        r.until_point = fsv::resume_after_notify;
        g_tr.rules.push_back(r);
    }
    if (enumerated)
    {
        // reference histories: pool(2) [two sessions] and pool(3) resized to 2 and back to 3
        sessions.clear();
        g_tr.rules.clear();
        classic = false;
        if (enum_h == 0)
        {
            size0 = 2;
            sessions.push_back({ 0, { { 0, 5, 0, 0 } }, false, false });
            sessions.push_back({ 0, { { 0, 3, 0, 0 } }, false, true });
        }
        else
        {
            size0 = 3;
            sessions.push_back({ 2, { { 0, 4, 0, 0 } }, false, false });
            sessions.push_back({ 3, { { 2, 9, 2, 0 } }, true, false });
        }
        Rule r;
        r.tid = static_cast<int>(enum_t);
        r.point = enum_t == 0 ? ENUM_CALLER_PTS[enum_p] : ENUM_WORKER_PTS[enum_p];
        r.occurrence = static_cast<unsigned>(enum_occ);
        r.action = 2;
        r.amount = 0;
        r.until_tid = static_cast<int>(enum_u);
        r.until_point = enum_u == 0 ? ENUM_CALLER_PTS[enum_q] : ENUM_WORKER_PTS[enum_q];
        r.bound_ms = 25;
        g_tr.rules.push_back(r);
        c.label("enumerated-order-constraint");
    }
    for (auto& r : g_tr.rules)
        plan += describe_rule(r);
    std::string hist = "pool(" + std::to_string(size0) + ")";
    for (auto& se : sessions)
    {
        hist += " | resume; resize(" + (se.resize_to ? std::to_string(se.resize_to) : std::string("same")) + ");";
        for (auto& r : se.runs)
            hist += " run_blocks(" + std::to_string(r.first) + "," + std::to_string(r.last) + ",min=" + std::to_string(r.min_size) + ",delay=" + std::to_string(r.delay) + ");";
        hist += " pause;";
        if (se.extra_pause)
            hist += " pause;";
        if (se.extra_cycle)
            hist += " resume; pause;";
    }
    hist += " | destroy";
    c.desc = hist + (plan.empty() ? "" : " steering=" + plan) + (C11_TSAN ? " [tsan]" : " [asan]");
    c.canon = hist + plan;
    c.announce();

    // ---- run it
    g_tr.steering = !g_tr.rules.empty();
    size_t max_workers = 0;
    bool resumed_after_pause = false;
    {
        auto pool_ptr = std::make_unique<fastscapelib::thread_pool<std::size_t>>(size0);
        auto& pool = *pool_ptr;
        size_t cur_size = size0;
        bool paused_once = false;
        for (auto& se : sessions)
        {
            {
                CallScope cs(2);
                pool.resume();
            }
            if (paused_once)
                resumed_after_pause = true;
            if (se.resize_to)
            {
                CallScope cs(3);
                pool.resize(se.resize_to);
                cur_size = se.resize_to;
            }
            c.expect(pool.size() == cur_size, "pool-size", "size() = " + std::to_string(pool.size()) + " expected " + std::to_string(cur_size));
            for (auto& rs : se.runs)
            {
                size_t len = rs.last > rs.first ? rs.last - rs.first : 0;
                // per-runner slots: written by the worker (plain stores), read by the caller after
                // run_blocks returned (plain loads): value check and, under TSan, visibility check
                struct Slot
                {
                    size_t start = 0, end = 0;
                    unsigned calls = 0;
                    unsigned done = 0;
                    char pad[64];
                };
                std::vector<Slot> slots(cur_size + 2);
                std::vector<unsigned> hits(len, 0);
                std::atomic<unsigned> out_of_range{ 0 };
                size_t first = rs.first;
                unsigned delay = rs.delay;
                auto fn = [&slots, &hits, &out_of_range, first, len, delay, cur_size](std::size_t runner, std::size_t start, std::size_t end)
                {
                    if (runner >= cur_size + 2)
                    {
                        out_of_range.fetch_add(1, std::memory_order_relaxed);
                        return;
                    }
                    Slot& sl = slots[runner];
                    sl.start = start;
                    sl.end = end;
                    sl.calls++;
                    for (size_t i = start; i < end; ++i)
                    {
                        if (i < first || i - first >= len)
                            out_of_range.fetch_add(1, std::memory_order_relaxed);
                        else
                            hits[i - first]++;
                    }
                    for (unsigned d = 0; d < delay; ++d)
                        std::this_thread::yield();
                    sl.done = 1;  // last write of the callback
                };
                {
                    CallScope cs(1);
                    pool.run_blocks(rs.first, rs.last, fn, rs.min_size);
                }
                max_workers = std::max(max_workers, cur_size);
                std::string call = "run_blocks(" + std::to_string(rs.first) + "," + std::to_string(rs.last) + ",min=" + std::to_string(rs.min_size) + ") on " + std::to_string(cur_size) + " workers";
                c.expect(out_of_range.load() == 0, "index-out-of-range", call + ": callback received indices outside [first,last) or a runner id >= size + 2");
                size_t nblocks = 0;
                std::vector<std::pair<size_t, size_t>> blocks;
                for (size_t r = 0; r < slots.size(); ++r)
                {
                    if (slots[r].calls == 0)
                        continue;
                    c.expect(r < cur_size, "runner-id", call + ": runner id " + std::to_string(r) + " >= pool size");
                    c.expect(slots[r].calls == 1, "runner-twice", call + ": runner " + std::to_string(r) + " ran " + std::to_string(slots[r].calls) + " callbacks");
                    c.expect(slots[r].done == 1, "returned-before-callback-finished", call + ": run_blocks returned but the callback of runner " + std::to_string(r) + " had not finished");
                    c.expect(slots[r].end > slots[r].start, "empty-block", call + ": runner " + std::to_string(r) + " got an empty block");
                    blocks.push_back({ slots[r].start, slots[r].end });
                    ++nblocks;
                }
                for (size_t i = 0; i < len; ++i)
                    if (hits[i] != 1)
                        c.fail("not-exactly-once", call + ": index " + std::to_string(rs.first + i) + " was processed " + std::to_string(hits[i]) + " times");
                c.expect(nblocks <= cur_size, "too-many-blocks", call + ": " + std::to_string(nblocks) + " blocks");
                if (len == 0)
                    c.expect(nblocks == 0, "callback-on-empty-range", call);
                std::sort(blocks.begin(), blocks.end());
                for (size_t b = 0; b < blocks.size(); ++b)
                {
                    size_t expect_start = b == 0 ? rs.first : blocks[b - 1].second;
                    c.expect(blocks[b].first == expect_start, "blocks-not-contiguous", call + ": block " + std::to_string(b) + " starts at " + std::to_string(blocks[b].first));
                }
                if (!blocks.empty())
                    c.expect(blocks.back().second == rs.last, "blocks-end", call + ": last block ends at " + std::to_string(blocks.back().second));
            }
            {
                CallScope cs(4);
                pool.pause();
            }
            paused_once = true;
            c.expect(pool.paused(), "paused-flag", "paused() is false after pause()");
            if (se.extra_pause)
            {
                CallScope cs(4);
                pool.pause();
            }
            if (se.extra_cycle)
            {
                {
                    CallScope cs(2);
                    pool.resume();
                }
                resumed_after_pause = true;
                {
                    CallScope cs(4);
                    pool.pause();
                }
            }
        }
        CallScope cs(5);  // destruction (stop + join)
        pool_ptr.reset();
    }
    g_tr.call_started_ms = 0;
    g_tr.steering = false;
    unsigned fired = 0;
    for (auto& r : g_tr.rules)
        fired += r.fired.load();
    c.label("sessions=" + std::to_string(sessions.size()));
    c.label(max_workers >= 2 ? "workers>=2" : "workers<2");
    if (resumed_after_pause)
        c.label("pause->resume");
    if (fired)
        c.label("steering-fired");
    if (classic)
        c.label("lost-wakeup-order-constraint");
    // pause -> destroy happens in every history, pause -> resume in most; non-trivial = at least
    // two workers and (address build) a steering rule that actually fired
    c.nontrivial = max_workers >= 2 && (C11_TSAN || fired > 0);
}
