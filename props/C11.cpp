// C11 -- worker pool runs each block exactly once and never hangs or races.
//
// Built twice: address+undefined (value oracle, steering, stuck detection) and
// thread sanitizer (data races in the C++ memory model; no holds).
#define PROPERTY_ID "C11"
#include <atomic>
#include <cassert>
#include <chrono>
#include <memory>
#include <thread>
#include <vector>
#include "fastscapelib/utils/thread_pool.hpp"
#include "src.hpp"
#include "harness.hpp"

namespace fsv = fastscapelib::verif;

#if defined(__has_feature)
#if __has_feature(thread_sanitizer)
#define C11_TSAN 1
#endif
#endif
#ifndef C11_TSAN
#define C11_TSAN 0
#endif

namespace
{
    constexpr int NPOINTS = 19;
    constexpr int NTHREADS = 18;  // caller = 0, workers 1..17

    struct Rule
    {
        int point;
        int tid;  // -1 any
        unsigned occurrence;  // k-th time (1-based), 0 = every time
        int action;  // 0 yield, 1 sleep, 2 hold-until
        unsigned amount;
        int until_tid, until_point;
        std::atomic<unsigned> fired{ 0 };
        Rule() = default;
        Rule(const Rule& o)
            : point(o.point), tid(o.tid), occurrence(o.occurrence), action(o.action), amount(o.amount), until_tid(o.until_tid), until_point(o.until_point), fired(o.fired.load())
        {
        }
    };

    struct Tracker
    {
        std::atomic<unsigned long> seq{ 0 };
        std::atomic<int> last_point[NTHREADS];
        std::atomic<unsigned long> last_seq[NTHREADS];
        std::atomic<unsigned> count[NTHREADS][NPOINTS];
        std::vector<Rule> rules;
        std::atomic<bool> steering{ false };
        // caller phase for the monitor
        std::atomic<long long> call_started_ms{ 0 };  // 0 = not inside a pool call
        std::atomic<int> call_kind{ 0 };
        void reset()
        {
            seq = 0;
            for (int t = 0; t < NTHREADS; ++t)
            {
                last_point[t] = 0;
                last_seq[t] = 0;
                for (int p = 0; p < NPOINTS; ++p)
                    count[t][p] = 0;
            }
            rules.clear();
            call_started_ms = 0;
        }
    };
    Tracker g_tr;

    long long now_ms()
    {
        return std::chrono::duration_cast<std::chrono::milliseconds>(std::chrono::steady_clock::now().time_since_epoch()).count();
    }

    const char* point_name(int p)
    {
        static const char* n[] = { "-", "pausejob_before_lock", "pausejob_after_lock", "pausejob_after_inc(before cv.wait)", "pausejob_after_wait", "runtasks_before_store", "runtasks_after_store", "pause_spin", "resume_before_notify", "resume_after_notify", "wait_spin", "worker_loop", "worker_before_job", "worker_after_job", "worker_after_clear", "stop_before_join", "worker_exit", "wait_done", "pause_done" };
        return p >= 0 && p < NPOINTS ? n[p] : "?";
    }

    void hook(int point, std::size_t worker, const void*)
    {
        int tid = worker == static_cast<std::size_t>(-1) ? 0 : static_cast<int>(worker) + 1;
        if (tid >= NTHREADS || point >= NPOINTS)
            return;
        unsigned long s = g_tr.seq.fetch_add(1, std::memory_order_relaxed);
        g_tr.last_point[tid].store(point, std::memory_order_relaxed);
        g_tr.last_seq[tid].store(s, std::memory_order_relaxed);
        unsigned k = g_tr.count[tid][point].fetch_add(1, std::memory_order_relaxed) + 1;
        if (!g_tr.steering.load(std::memory_order_relaxed))
            return;
        for (auto& r : g_tr.rules)
        {
            if (r.point != point || (r.tid >= 0 && r.tid != tid) || (r.occurrence && r.occurrence != k))
                continue;
            r.fired.fetch_add(1, std::memory_order_relaxed);
            if (r.action == 0)
            {
                for (unsigned i = 0; i < r.amount; ++i)
                    std::this_thread::yield();
            }
            else if (r.action == 1)
            {
                std::this_thread::sleep_for(std::chrono::microseconds(r.amount));
            }
            else
            {
                // hold until thread `until_tid` has passed point `until_point` once more
                // (an order constraint, bounded by 200 ms so that it can never block forever)
                unsigned base = g_tr.count[r.until_tid][r.until_point].load(std::memory_order_relaxed);
                long long t0 = now_ms();
                while (g_tr.count[r.until_tid][r.until_point].load(std::memory_order_relaxed) == base && now_ms() - t0 < 200)
                    std::this_thread::yield();
            }
        }
    }

    // monitor: termination as a logical predicate
    std::atomic<bool> g_monitor_started{ false };
    void monitor_main()
    {
        for (;;)
        {
            std::this_thread::sleep_for(std::chrono::milliseconds(100));
            long long t0 = g_tr.call_started_ms.load(std::memory_order_relaxed);
            if (t0 == 0)
                continue;
            long long dt = now_ms() - t0;
            if (dt < 10000)
                continue;
            int cp = g_tr.last_point[0].load(std::memory_order_relaxed);
            int waiting_workers = 0, first_waiting = -1;
            for (int t = 1; t < NTHREADS; ++t)
                if (g_tr.last_point[t].load(std::memory_order_relaxed) == fsv::pausejob_after_inc)
                {
                    ++waiting_workers;
                    if (first_waiting < 0)
                        first_waiting = t - 1;
                }
            bool caller_spins = cp == fsv::wait_spin || cp == fsv::pause_spin;
            // provably stuck: the caller (the only thread that ever notifies) spins in wait()
            // after its notify_all, while a worker with its job flag still set sits in cv.wait
            // (wait() is only entered when every worker has been resumed: a worker that is still
            // inside the condition-variable wait at that time has missed the notification)
            bool stuck = cp == fsv::wait_spin && waiting_workers > 0;
            // observe whether anything else than spin iterations still changes
            unsigned long snap[NTHREADS];
            for (int t = 1; t < NTHREADS; ++t)
                snap[t] = g_tr.last_seq[t].load(std::memory_order_relaxed);
            std::this_thread::sleep_for(std::chrono::milliseconds(500));
            bool workers_silent = true;
            for (int t = 1; t < NTHREADS; ++t)
                if (g_tr.last_point[t].load(std::memory_order_relaxed) == fsv::pausejob_after_inc && snap[t] != g_tr.last_seq[t].load(std::memory_order_relaxed))
                    workers_silent = false;
            char buf[600];
            if (stuck && workers_silent && caller_spins)
            {
                int len = snprintf(buf, sizeof buf,
                                   "\nPOOL-STUCK: caller has been inside one pool call for %lld ms and spins in wait(); worker %d (and %d in total) "
                                   "is blocked in the condition-variable wait of its pause job with its job flag still set; nobody else notifies -> no progress possible (lost wake-up)\n",
                                   dt, first_waiting, waiting_workers);
                ssize_t w = write(2, buf, static_cast<size_t>(len));
                (void) w;
                _exit(88);
            }
            if (dt > 40000)
            {
                int len = snprintf(buf, sizeof buf, "\nPOOL-SLOW: caller inside one pool call (kind %d) for %lld ms (caller at %s) without a provably stuck state: inconclusive\n", g_tr.call_kind.load(), dt, point_name(cp));
                ssize_t w = write(2, buf, static_cast<size_t>(len));
                (void) w;
                for (int t = 1; t < NTHREADS; ++t)
                    if (g_tr.last_point[t].load())
                    {
                        len = snprintf(buf, sizeof buf, "  worker %d last at %s (event %lu)\n", t - 1, point_name(g_tr.last_point[t].load()), g_tr.last_seq[t].load());
                        w = write(2, buf, static_cast<size_t>(len));
                    }
                _exit(89);
            }
        }
    }

    struct CallScope
    {
        CallScope(int kind)
        {
            g_tr.call_kind.store(kind, std::memory_order_relaxed);
            g_tr.call_started_ms.store(now_ms(), std::memory_order_relaxed);
        }
        ~CallScope()
        {
            g_tr.call_started_ms.store(0, std::memory_order_relaxed);
        }
    };

    struct RunSpec
    {
        size_t first, last, min_size;
        unsigned delay;
    };
    struct Session
    {
        size_t resize_to;  // 0 = keep
        std::vector<RunSpec> runs;
        bool extra_pause, extra_cycle;
    };
}

static void check_case(vg::Src& s, vh::Ctx& c)
{
    if (!g_monitor_started.exchange(true))
    {
        std::thread(monitor_main).detach();
        fsv::sched_hook().store(&hook);
    }
    g_tr.steering = false;
    g_tr.reset();

    // ---- decode the history
    size_t size0 = s.weighted({ 60, 40, 50, 40, 30, 20, 16 }) + 1;  // 1..7
    if (s.chance(40))
        size0 = 10;  // the size the library uses
    size_t nsess = s.range(1, 5);
    std::vector<Session> sessions;
    static const size_t sizes[] = { 0, 1, 2, 3, 4, 6, 8, 16 };
    for (size_t i = 0; i < nsess; ++i)
    {
        Session se;
        se.resize_to = sizes[s.weighted({ 90, 20, 50, 30, 30, 15, 12, 9 })];
        size_t nr = s.weighted({ 30, 120, 70, 36 });
        for (size_t r = 0; r < nr; ++r)
        {
            RunSpec rs;
            rs.first = s.chance(60) ? s.range(0, 50) : 0;
            size_t len = s.weighted({ 16, 20, 60, 80, 50, 30 });
            static const size_t lens[] = { 0, 1, 3, 17, 64, 257 };
            len = lens[len] + (s.chance(100) ? s.range(0, 7) : 0);
            rs.last = rs.first + len;
            if (s.chance(10) && rs.first > 0)
                rs.last = rs.first - 1;  // empty (reversed) range
            static const size_t mins[] = { 0, 1, 2, 5, 16, 100 };
            rs.min_size = mins[s.weighted({ 140, 20, 30, 30, 20, 16 })];
            rs.delay = static_cast<unsigned>(s.weighted({ 150, 50, 40, 16 })) * 20;
            se.runs.push_back(rs);
        }
        se.extra_pause = s.chance(30);
        se.extra_cycle = s.chance(40);
        sessions.push_back(se);
    }
    // ---- steering plan (address-sanitizer build only)
    size_t nrules = C11_TSAN ? 0 : s.weighted({ 60, 80, 60, 30, 26 });
    bool classic = !C11_TSAN && s.chance(60);
    std::string plan;
    for (size_t i = 0; i < nrules; ++i)
    {
        Rule r;
        r.point = static_cast<int>(s.range(1, NPOINTS - 1));
        size_t who = s.weighted({ 100, 60, 96 });
        r.tid = who == 0 ? -1 : (who == 1 ? 0 : static_cast<int>(s.range(1, 8)));
        r.occurrence = static_cast<unsigned>(s.weighted({ 120, 60, 40, 36 }));
        r.action = static_cast<int>(s.weighted({ 120, 60, 76 }));
        r.amount = r.action == 0 ? static_cast<unsigned>(s.range(1, 200)) : static_cast<unsigned>(s.range(1, 40)) * 50;
        r.until_tid = s.coin() ? 0 : static_cast<int>(s.range(1, 8));
        r.until_point = static_cast<int>(s.range(1, NPOINTS - 1));
        g_tr.rules.push_back(r);
    }
    if (classic)
    {
        // the order constraint that exposes a notify issued before the wait: a worker holds
        // between ++m_paused_count and cv.wait until the caller has passed notify_all
        Rule r;
        r.point = fsv::pausejob_after_inc;
        r.tid = static_cast<int>(s.range(1, 4));
        r.occurrence = 0;
        r.action = 2;
        r.amount = 0;
        r.until_tid = 0;
        r.until_point = fsv::resume_after_notify;
        g_tr.rules.push_back(r);
    }
    for (auto& r : g_tr.rules)
        plan += std::string("[") + point_name(r.point) + " tid=" + std::to_string(r.tid) + " occ=" + std::to_string(r.occurrence) + (r.action == 0 ? " yield " + std::to_string(r.amount) : r.action == 1 ? " sleep " + std::to_string(r.amount) + "us" : " hold-until tid" + std::to_string(r.until_tid) + "@" + point_name(r.until_point)) + "]";
    std::string hist = "pool(" + std::to_string(size0) + ")";
    for (auto& se : sessions)
    {
        hist += " | resume; resize(" + (se.resize_to ? std::to_string(se.resize_to) : std::string("same")) + ");";
        for (auto& r : se.runs)
            hist += " run_blocks(" + std::to_string(r.first) + "," + std::to_string(r.last) + ",min=" + std::to_string(r.min_size) + ",delay=" + std::to_string(r.delay) + ");";
        hist += " pause;";
        if (se.extra_pause)
            hist += " pause;";
        if (se.extra_cycle)
            hist += " resume; pause;";
    }
    hist += " | destroy";
    c.desc = hist + (plan.empty() ? "" : " steering=" + plan) + (C11_TSAN ? " [tsan]" : " [asan]");
    c.canon = hist + plan;
    c.announce();

    // ---- run it
    g_tr.steering = !g_tr.rules.empty();
    size_t max_workers = 0;
    bool resumed_after_pause = false;
    {
        auto pool_ptr = std::make_unique<fastscapelib::thread_pool<std::size_t>>(size0);
        auto& pool = *pool_ptr;
        size_t cur_size = size0;
        bool paused_once = false;
        for (auto& se : sessions)
        {
            {
                CallScope cs(2);
                pool.resume();
            }
            if (paused_once)
                resumed_after_pause = true;
            if (se.resize_to)
            {
                CallScope cs(3);
                pool.resize(se.resize_to);
                cur_size = se.resize_to;
            }
            c.expect(pool.size() == cur_size, "pool-size", "size() = " + std::to_string(pool.size()) + " expected " + std::to_string(cur_size));
            for (auto& rs : se.runs)
            {
                size_t len = rs.last > rs.first ? rs.last - rs.first : 0;
                // per-runner slots: written by the worker (plain stores), read by the caller after
                // run_blocks returned (plain loads): value check and, under TSan, visibility check
                struct Slot
                {
                    size_t start = 0, end = 0;
                    unsigned calls = 0;
                    unsigned done = 0;
                    char pad[64];
                };
                std::vector<Slot> slots(cur_size + 2);
                std::vector<unsigned> hits(len, 0);
                std::atomic<unsigned> out_of_range{ 0 };
                size_t first = rs.first;
                unsigned delay = rs.delay;
                auto fn = [&slots, &hits, &out_of_range, first, len, delay, cur_size](std::size_t runner, std::size_t start, std::size_t end)
                {
                    if (runner >= cur_size + 2)
                    {
                        out_of_range.fetch_add(1, std::memory_order_relaxed);
                        return;
                    }
                    Slot& sl = slots[runner];
                    sl.start = start;
                    sl.end = end;
                    sl.calls++;
                    for (size_t i = start; i < end; ++i)
                    {
                        if (i < first || i - first >= len)
                            out_of_range.fetch_add(1, std::memory_order_relaxed);
                        else
                            hits[i - first]++;
                    }
                    for (unsigned d = 0; d < delay; ++d)
                        std::this_thread::yield();
                    sl.done = 1;  // last write of the callback
                };
                {
                    CallScope cs(1);
                    pool.run_blocks(rs.first, rs.last, fn, rs.min_size);
                }
                max_workers = std::max(max_workers, cur_size);
                std::string call = "run_blocks(" + std::to_string(rs.first) + "," + std::to_string(rs.last) + ",min=" + std::to_string(rs.min_size) + ") on " + std::to_string(cur_size) + " workers";
                c.expect(out_of_range.load() == 0, "index-out-of-range", call + ": callback received indices outside [first,last) or a runner id >= size + 2");
                size_t nblocks = 0;
                std::vector<std::pair<size_t, size_t>> blocks;
                for (size_t r = 0; r < slots.size(); ++r)
                {
                    if (slots[r].calls == 0)
                        continue;
                    c.expect(r < cur_size, "runner-id", call + ": runner id " + std::to_string(r) + " >= pool size");
                    c.expect(slots[r].calls == 1, "runner-twice", call + ": runner " + std::to_string(r) + " ran " + std::to_string(slots[r].calls) + " callbacks");
                    c.expect(slots[r].done == 1, "returned-before-callback-finished", call + ": run_blocks returned but the callback of runner " + std::to_string(r) + " had not finished");
                    c.expect(slots[r].end > slots[r].start, "empty-block", call + ": runner " + std::to_string(r) + " got an empty block");
                    blocks.push_back({ slots[r].start, slots[r].end });
                    ++nblocks;
                }
                for (size_t i = 0; i < len; ++i)
                    if (hits[i] != 1)
                        c.fail("not-exactly-once", call + ": index " + std::to_string(rs.first + i) + " was processed " + std::to_string(hits[i]) + " times");
                c.expect(nblocks <= cur_size, "too-many-blocks", call + ": " + std::to_string(nblocks) + " blocks");
                if (len == 0)
                    c.expect(nblocks == 0, "callback-on-empty-range", call);
                std::sort(blocks.begin(), blocks.end());
                for (size_t b = 0; b < blocks.size(); ++b)
                {
                    size_t expect_start = b == 0 ? rs.first : blocks[b - 1].second;
                    c.expect(blocks[b].first == expect_start, "blocks-not-contiguous", call + ": block " + std::to_string(b) + " starts at " + std::to_string(blocks[b].first));
                }
                if (!blocks.empty())
                    c.expect(blocks.back().second == rs.last, "blocks-end", call + ": last block ends at " + std::to_string(blocks.back().second));
            }
            {
                CallScope cs(4);
                pool.pause();
            }
            paused_once = true;
            c.expect(pool.paused(), "paused-flag", "paused() is false after pause()");
            if (se.extra_pause)
            {
                CallScope cs(4);
                pool.pause();
            }
            if (se.extra_cycle)
            {
                {
                    CallScope cs(2);
                    pool.resume();
                }
                resumed_after_pause = true;
                {
                    CallScope cs(4);
                    pool.pause();
                }
            }
        }
        CallScope cs(5);  // destruction (stop + join)
        pool_ptr.reset();
    }
    g_tr.call_started_ms = 0;
    g_tr.steering = false;
    unsigned fired = 0;
    for (auto& r : g_tr.rules)
        fired += r.fired.load();
    c.label("sessions=" + std::to_string(sessions.size()));
    c.label(max_workers >= 2 ? "workers>=2" : "workers<2");
    if (resumed_after_pause)
        c.label("pause->resume");
    if (fired)
        c.label("steering-fired");
    if (classic)
        c.label("lost-wakeup-order-constraint");
    // pause -> destroy happens in every history, pause -> resume in most; non-trivial = at least
    // two workers and (address build) a steering rule that actually fired
    c.nontrivial = max_workers >= 2 && (C11_TSAN || fired > 0);
}
