// C01 -- sink-resolved flow paths always reach a base level.
#define PROPERTY_ID "C01"
#include "flowcase.hpp"

using namespace vf;

static bool check_routes(vh::Ctx& c, const FlowCase& fc, const ProgInfo& pi, const GraphState& st, const std::vector<double>& f, const std::string& tag);

static void check_case(vg::Src& s, vh::Ctx& c)
{
    FlowOpts o;
    o.grid.max_side = c.arg > 0 ? static_cast<size_t>(c.arg) : 10;
    o.grid.large_side = c.arg >= 16 ? 72 : 40;  // ~3% large grids
    o.grid.mesh_max_side = 6;
    o.every_component = !s.chance(64);  // ~25%: pockets without base level are allowed
    FlowCase fc = gen_flow_case(s, o);
    ProgInfo pi;
    auto ops = gen_resolver_program(s, pi, true);
    size_t rounds = s.weighted({ 150, 70, 36 }) + 1;  // 1-3 updates on the same graph
    c.desc = fc.describe() + " ops=" + vg::describe(ops);
    c.announce();
    label_case(c, fc);
    c.label("prog=" + std::to_string(pi.cls) + (pi.has_basic ? "-basic" : pi.has_carve ? "-carve" : ""));
    c.label("rounds=" + std::to_string(rounds));
    Built b = build(fc, ops, c);
    bool nt = false;
    for (size_t round = 0; round < rounds; ++round)
    {
        std::string tag = "update#" + std::to_string(round + 1) + ": ";
        if (round > 0)
        {
            std::string what = mutate_settings(s, fc, *b.graph, o.every_component);
            fc.z = vg::gen_field(s, fc.m);
            c.desc += " |" + what + " update(z=" + vg::describe_field(fc.z, 0) + ")";
            if (c.verbose)
                std::cout << "STEP" << what << " update(z=" << vg::describe_field(fc.z, 0) << ")" << std::endl;
        }
        auto res = b.graph->update_routes(fc.z);
        GraphState st = b.graph->state();
        if (check_routes(c, fc, pi, st, res.out, tag))
            nt = true;
        if (!c.known_hits.empty())
            return;  // excluded known finding: later rounds start from a state we do not judge
    }
    c.nontrivial = nt;
    if (nt)
        c.label("resolver-had-work");
}

static bool check_routes(vh::Ctx& c, const FlowCase& fc, const ProgInfo& pi, const GraphState& st, const std::vector<double>& f, const std::string& tag)
{
    size_t n = fc.m.n;
    bool had_work = false;
    check_wellformed(c, st, n);
    if (!pi.final_multi)
        for (size_t i = 0; i < n; ++i)
            c.expect(st.rec_count[i] == 1, "single-count", "single-direction state with receivers_count != 1 at node " + std::to_string(i));

    // (a) base-level and masked nodes never drain anywhere
    for (size_t i = 0; i < n; ++i)
        if (fc.masked(i) || fc.isbase[i])
        {
            if (st.rec_count[i] != 1 || R(st, i, 0) != i)
                c.fail(fc.masked(i) ? "masked-node-drains" : "base-level-drains", tag + "node " + std::to_string(i) + " has receiver " + std::to_string(R(st, i, 0)) + " (count " + std::to_string(st.rec_count[i]) + ")");
        }

    // (c) no cycle anywhere (all receiver edges, iterative 3-colour DFS)
    {
        std::vector<uint8_t> col(n, 0);
        for (size_t root = 0; root < n; ++root)
        {
            if (col[root])
                continue;
            std::vector<std::pair<size_t, size_t>> stk{ { root, 0 } };
            col[root] = 1;
            while (!stk.empty())
            {
                auto& [i, k] = stk.back();
                if (k >= st.rec_count[i])
                {
                    col[i] = 2;
                    stk.pop_back();
                    continue;
                }
                size_t r = R(st, i, k++);
                if (r == i)
                    continue;
                if (col[r] == 1)
                    c.fail("cycle", tag + "receiver edge " + std::to_string(i) + "->" + std::to_string(r) + " closes a cycle");
                if (col[r] == 0)
                {
                    col[r] = 1;
                    stk.push_back({ r, 0 });
                }
            }
        }
    }

    // (b) every unmasked node connected to a base level drains to a base level, strictly downhill
    auto lev = spill_levels(fc);
    for (size_t i = 0; i < n; ++i)
    {
        if (fc.masked(i) || fc.isbase[i] || !fc.reach[i])
            continue;
        if (lev[i] > fc.z[i])
            had_work = true;
        for (auto& nb : fc.m.nb[i])
            if (!fc.masked(nb.idx) && fc.z[nb.idx] == fc.z[i])
                had_work = true;
        bool self_only = true;
        for (size_t k = 0; k < st.rec_count[i]; ++k)
        {
            size_t r = R(st, i, k);
            if (r == i)
                continue;
            self_only = false;
            if (!(f[r] < f[i]))
            {
                std::string d = tag + "node " + std::to_string(i) + " (f=" + vg::fmt(f[i]) + ") -> receiver " + std::to_string(r) + " (f=" + vg::fmt(f[r]) + ")";
                if (pi.d13_shape && c.fail_matched("D13", "non-decreasing-step", d))
                    return had_work;
                c.fail("non-decreasing-step", d);
            }
        }
        if (self_only)
        {
            std::string d = tag + "node " + std::to_string(i) + " (z=" + vg::fmt(fc.z[i]) + ", f=" + vg::fmt(f[i]) + ", spill level " + vg::fmt(lev[i]) + ") is connected to a base level but is its own receiver";
            if (pi.d13_shape && c.fail_matched("D13", "pit-remains", d))
                return had_work;
            c.fail("pit-remains", d);
        }
        // walk along first receivers
        size_t cur = i, steps = 0;
        while (R(st, cur, 0) != cur && steps <= n)
        {
            cur = R(st, cur, 0);
            ++steps;
        }
        if (steps > n)
            c.fail("cycle", tag + "walk from node " + std::to_string(i) + " does not end");
        if (!fc.isbase[cur])
        {
            std::string d = tag + "walk from node " + std::to_string(i) + " ends at node " + std::to_string(cur) + " which is not a base level";
            if (pi.d13_shape && c.fail_matched("D13", "ends-off-base", d))
                return had_work;
            c.fail("ends-off-base", d);
        }
    }
    return had_work;
}
