// C01 -- sink-resolved flow paths always reach a base level.
#define PROPERTY_ID "C01"
#include "flowcase.hpp"

using namespace vf;

static void check_case(vg::Src& s, vh::Ctx& c)
{
    FlowOpts o;
    o.grid.max_side = c.arg > 0 ? static_cast<size_t>(c.arg) : 10;
    o.grid.mesh_max_side = 6;
    o.every_component = !s.chance(64);  // ~25%: pockets without base level are allowed
    FlowCase fc = gen_flow_case(s, o);
    ProgInfo pi;
    auto ops = gen_resolver_program(s, pi, true);
    c.desc = fc.describe() + " ops=" + vg::describe(ops);
    c.announce();
    label_case(c, fc);
    c.label("prog=" + std::to_string(pi.cls) + (pi.has_basic ? "-basic" : pi.has_carve ? "-carve" : ""));

    Built b = build(fc, ops, c);
    auto res = b.graph->update_routes(fc.z);
    const auto& f = res.out;
    GraphState st = b.graph->state();
    size_t n = fc.m.n;
    check_wellformed(c, st, n);
    if (!pi.final_multi)
        for (size_t i = 0; i < n; ++i)
            c.expect(st.rec_count[i] == 1, "single-count", "single-direction state with receivers_count != 1 at node " + std::to_string(i));

    // (a) base-level and masked nodes never drain anywhere
    for (size_t i = 0; i < n; ++i)
        if (fc.masked(i) || fc.isbase[i])
        {
            if (st.rec_count[i] != 1 || R(st, i, 0) != i)
                c.fail(fc.masked(i) ? "masked-node-drains" : "base-level-drains", "node " + std::to_string(i) + " has receiver " + std::to_string(R(st, i, 0)) + " (count " + std::to_string(st.rec_count[i]) + ")");
        }

    // (c) no cycle anywhere (all receiver edges, iterative 3-colour DFS)
    {
        std::vector<uint8_t> col(n, 0);
        for (size_t root = 0; root < n; ++root)
        {
            if (col[root])
                continue;
            std::vector<std::pair<size_t, size_t>> stk{ { root, 0 } };
            col[root] = 1;
            while (!stk.empty())
            {
                auto& [i, k] = stk.back();
                if (k >= st.rec_count[i])
                {
                    col[i] = 2;
                    stk.pop_back();
                    continue;
                }
                size_t r = R(st, i, k++);
                if (r == i)
                    continue;
                if (col[r] == 1)
                    c.fail("cycle", "receiver edge " + std::to_string(i) + "->" + std::to_string(r) + " closes a cycle");
                if (col[r] == 0)
                {
                    col[r] = 1;
                    stk.push_back({ r, 0 });
                }
            }
        }
    }

    // (b) every unmasked node connected to a base level drains to a base level, strictly downhill
    auto lev = spill_levels(fc);
    bool had_work = false;
    for (size_t i = 0; i < n; ++i)
    {
        if (fc.masked(i) || fc.isbase[i] || !fc.reach[i])
            continue;
        if (lev[i] > fc.z[i])
            had_work = true;
        for (auto& nb : fc.m.nb[i])
            if (!fc.masked(nb.idx) && fc.z[nb.idx] == fc.z[i])
                had_work = true;
        bool self_only = true;
        for (size_t k = 0; k < st.rec_count[i]; ++k)
        {
            size_t r = R(st, i, k);
            if (r == i)
                continue;
            self_only = false;
            if (!(f[r] < f[i]))
            {
                std::string d = "node " + std::to_string(i) + " (f=" + vg::fmt(f[i]) + ") -> receiver " + std::to_string(r) + " (f=" + vg::fmt(f[r]) + ")";
                if (pi.d13_shape && c.fail_matched("D13", "non-decreasing-step", d))
                    return;
                c.fail("non-decreasing-step", d);
            }
        }
        if (self_only)
        {
            std::string d = "node " + std::to_string(i) + " (z=" + vg::fmt(fc.z[i]) + ", f=" + vg::fmt(f[i]) + ", spill level " + vg::fmt(lev[i]) + ") is connected to a base level but is its own receiver";
            if (pi.d13_shape && c.fail_matched("D13", "pit-remains", d))
                return;
            c.fail("pit-remains", d);
        }
        // walk along first receivers
        size_t cur = i, steps = 0;
        while (R(st, cur, 0) != cur && steps <= n)
        {
            cur = R(st, cur, 0);
            ++steps;
        }
        if (steps > n)
            c.fail("cycle", "walk from node " + std::to_string(i) + " does not end");
        if (!fc.isbase[cur])
        {
            std::string d = "walk from node " + std::to_string(i) + " ends at node " + std::to_string(cur) + " which is not a base level";
            if (pi.d13_shape && c.fail_matched("D13", "ends-off-base", d))
                return;
            c.fail("ends-off-base", d);
        }
    }
    c.nontrivial = had_work;
    if (had_work)
        c.label("resolver-had-work");
}
