// C02 -- depression filling raises terrain exactly to its spill level.
#define PROPERTY_ID "C02"
#include "flowcase.hpp"

using namespace vf;

static void check_case(vg::Src& s, vh::Ctx& c)
{
    FlowOpts o;
    o.grid.max_side = c.arg > 0 ? static_cast<size_t>(c.arg) : 10;
    o.grid.large_side = c.arg >= 16 ? 72 : 40;  // ~3% large grids
    o.every_component = !s.chance(40);
    FlowCase fc = gen_flow_case(s, o);
    c.desc = fc.describe();
    c.announce();
    label_case(c, fc);
    size_t n = fc.m.n;
    auto lev = spill_levels(fc);
    bool has_depression = false;
    for (size_t i = 0; i < n; ++i)
        if (!fc.masked(i) && fc.reach[i] && lev[i] > fc.z[i])
            has_depression = true;

    // all resolver variants on the same case
    struct Var
    {
        const char* name;
        std::vector<OpSpec> ops;
    };
    std::vector<Var> vars = {
        { "pflood+single", { vg::op_pflood(), vg::op_single(0) } },
        { "pflood+multi", { vg::op_pflood(), vg::op_multi(1.0) } },
        { "mst(kruskal,basic)", { vg::op_single(0), vg::op_mst(va::MST_KRUSKAL, va::ROUTE_BASIC) } },
        { "mst(kruskal,carve)", { vg::op_single(0), vg::op_mst(va::MST_KRUSKAL, va::ROUTE_CARVE) } },
        { "mst(boruvka,basic)", { vg::op_single(0), vg::op_mst(va::MST_BORUVKA, va::ROUTE_BASIC) } },
        { "mst(boruvka,carve)", { vg::op_single(0), vg::op_mst(va::MST_BORUVKA, va::ROUTE_CARVE) } },
    };
    // a generated subset (at least two) so that a case stays cheap but every pair occurs;
    // 1-2 updates on the same graphs (settings and field replaced in between)
    uint8_t pick = s.u8();
    size_t rounds = s.chance(90) ? 2 : 1;
    c.label("rounds=" + std::to_string(rounds));
    auto grid = va::make_grid(fc.sp);
    std::vector<std::unique_ptr<va::IGraph>> graphs;
    std::vector<std::string> names;
    for (size_t v = 0; v < vars.size(); ++v)
    {
        if (!((pick >> v) & 1) && !(v == pick % 6) && !(v == (pick / 6 + 1 + pick % 6) % 6))
            continue;
        graphs.push_back(va::make_graph(*grid, vars[v].ops));
        apply_settings(*graphs.back(), fc);
        names.push_back(vars[v].name);
        c.label(std::string("variant=") + vars[v].name);
    }
    for (size_t round = 0; round < rounds; ++round)
    {
        std::string tag = "update#" + std::to_string(round + 1) + " ";
        if (round > 0)
        {
            std::string what = mutate_settings(s, fc, *graphs[0], o.every_component);
            for (size_t g = 1; g < graphs.size(); ++g)
            {
                if (!fc.mask.empty())
                    graphs[g]->set_mask(fc.mask);
                graphs[g]->set_base_levels(scrambled(fc.bl));
            }
            fc.z = vg::gen_field(s, fc.m);
            lev = spill_levels(fc);
            for (size_t i = 0; i < n; ++i)
                if (!fc.masked(i) && fc.reach[i] && lev[i] > fc.z[i])
                    has_depression = true;
            c.desc += " |" + what + " update(z=" + vg::describe_field(fc.z, 0) + ")";
            if (c.verbose)
                std::cout << "STEP" << what << " update(z=" << vg::describe_field(fc.z, 0) << ")" << std::endl;
        }
        std::vector<std::vector<double>> outs;
        for (size_t g = 0; g < graphs.size(); ++g)
        {
            auto res = graphs[g]->update_routes(fc.z);
            const auto& f = res.out;
            std::string vn = tag + names[g];
            for (size_t i = 0; i < n; ++i)
                if (!vg::biteq(res.input_after[i], fc.z[i]))
                    c.fail("input-modified", vn + ": caller's elevation changed at node " + std::to_string(i));
            if (res.same_object)
                c.fail("returned-input-object", vn + ": update_routes returned the caller's array although a resolver edits elevation");
            for (size_t i = 0; i < n; ++i)
            {
                std::string at = vn + " node " + std::to_string(i) + " z=" + vg::fmt(fc.z[i]) + " f=" + vg::fmt(f[i]);
                if (fc.masked(i) || fc.isbase[i])
                {
                    if (!vg::biteq(f[i], fc.z[i]))
                        c.fail("base-or-masked-changed", at);
                    continue;
                }
                if (!(f[i] >= fc.z[i]))
                    c.fail("lowered", at);
                if (!fc.reach[i])
                    continue;
                long long d = vg::ulpdist(lev[i], f[i]);
                if (d < 0)
                    c.fail("below-spill-level", at + " spill level " + vg::fmt(lev[i]) + " (" + std::to_string(d) + " ulp)");
                if (d > static_cast<long long>(n))
                    c.fail("above-spill-level", at + " spill level " + vg::fmt(lev[i]) + " (+" + std::to_string(d) + " ulp, margin " + std::to_string(n) + ")");
            }
            outs.push_back(f);
        }
        // variants agree within the margin
        for (size_t a2 = 0; a2 < outs.size(); ++a2)
            for (size_t bb = a2 + 1; bb < outs.size(); ++bb)
                for (size_t i = 0; i < n; ++i)
                {
                    if (fc.masked(i) || !fc.reach[i])
                        continue;
                    long long d = vg::ulpdist(outs[a2][i], outs[bb][i]);
                    if (d > static_cast<long long>(n) || d < -static_cast<long long>(n))
                        c.fail("variants-disagree", tag + names[a2] + " vs " + names[bb] + " node " + std::to_string(i) + ": " + vg::fmt(outs[a2][i]) + " vs " + vg::fmt(outs[bb][i]));
                }
    }
    c.nontrivial = has_depression;
    if (has_depression)
        c.label("has-depression");
}
