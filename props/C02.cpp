// C02 -- depression filling raises terrain exactly to its spill level.
#define PROPERTY_ID "C02"
#include "flowcase.hpp"

using namespace vf;

static void check_case(vg::Src& s, vh::Ctx& c)
{
    FlowOpts o;
    o.grid.max_side = c.arg > 0 ? static_cast<size_t>(c.arg) : 10;
    o.every_component = !s.chance(40);
    FlowCase fc = gen_flow_case(s, o);
    c.desc = fc.describe();
    c.announce();
    label_case(c, fc);
    size_t n = fc.m.n;
    auto lev = spill_levels(fc);
    bool has_depression = false;
    for (size_t i = 0; i < n; ++i)
        if (!fc.masked(i) && fc.reach[i] && lev[i] > fc.z[i])
            has_depression = true;

    // all resolver variants on the same case
    struct Var
    {
        const char* name;
        std::vector<OpSpec> ops;
    };
    std::vector<Var> vars = {
        { "pflood+single", { vg::op_pflood(), vg::op_single(0) } },
        { "pflood+multi", { vg::op_pflood(), vg::op_multi(1.0) } },
        { "mst(kruskal,basic)", { vg::op_single(0), vg::op_mst(va::MST_KRUSKAL, va::ROUTE_BASIC) } },
        { "mst(kruskal,carve)", { vg::op_single(0), vg::op_mst(va::MST_KRUSKAL, va::ROUTE_CARVE) } },
        { "mst(boruvka,basic)", { vg::op_single(0), vg::op_mst(va::MST_BORUVKA, va::ROUTE_BASIC) } },
        { "mst(boruvka,carve)", { vg::op_single(0), vg::op_mst(va::MST_BORUVKA, va::ROUTE_CARVE) } },
    };
    // a generated subset (at least two) so that a case stays cheap but every pair occurs
    uint8_t pick = s.u8();
    std::vector<std::vector<double>> outs;
    std::vector<std::string> names;
    auto grid = va::make_grid(fc.sp);
    for (size_t v = 0; v < vars.size(); ++v)
    {
        if (!((pick >> v) & 1) && !(v == pick % 6) && !(v == (pick / 6 + 1 + pick % 6) % 6))
            continue;
        auto graph = va::make_graph(*grid, vars[v].ops);
        apply_settings(*graph, fc);
        auto res = graph->update_routes(fc.z);
        const auto& f = res.out;
        for (size_t i = 0; i < n; ++i)
            if (!vg::biteq(res.input_after[i], fc.z[i]))
                c.fail("input-modified", std::string(vars[v].name) + ": caller's elevation changed at node " + std::to_string(i));
        if (res.same_object)
            c.fail("returned-input-object", std::string(vars[v].name) + ": update_routes returned the caller's array although a resolver edits elevation");
        for (size_t i = 0; i < n; ++i)
        {
            std::string at = std::string(vars[v].name) + " node " + std::to_string(i) + " z=" + vg::fmt(fc.z[i]) + " f=" + vg::fmt(f[i]);
            if (fc.masked(i) || fc.isbase[i])
            {
                if (!vg::biteq(f[i], fc.z[i]))
                    c.fail("base-or-masked-changed", at);
                continue;
            }
            if (!(f[i] >= fc.z[i]))
                c.fail("lowered", at);
            if (!fc.reach[i])
                continue;
            long long d = vg::ulpdist(lev[i], f[i]);
            if (d < 0)
                c.fail("below-spill-level", at + " spill level " + vg::fmt(lev[i]) + " (" + std::to_string(d) + " ulp)");
            if (d > static_cast<long long>(n))
                c.fail("above-spill-level", at + " spill level " + vg::fmt(lev[i]) + " (+" + std::to_string(d) + " ulp, margin " + std::to_string(n) + ")");
        }
        outs.push_back(f);
        names.push_back(vars[v].name);
        c.label(std::string("variant=") + vars[v].name);
    }
    // variants agree within the margin
    for (size_t a = 0; a < outs.size(); ++a)
        for (size_t bb = a + 1; bb < outs.size(); ++bb)
            for (size_t i = 0; i < n; ++i)
            {
                if (fc.masked(i) || !fc.reach[i])
                    continue;
                long long d = vg::ulpdist(outs[a][i], outs[bb][i]);
                if (d > static_cast<long long>(n) || d < -static_cast<long long>(n))
                    c.fail("variants-disagree", names[a] + " vs " + names[bb] + " node " + std::to_string(i) + ": " + vg::fmt(outs[a][i]) + " vs " + vg::fmt(outs[bb][i]));
            }
    c.nontrivial = has_depression;
    if (has_depression)
        c.label("has-depression");
}
