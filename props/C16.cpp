// C16 -- graph and elevation snapshots are faithful and read-only.
#define PROPERTY_ID "C16"
#include "flowcase.hpp"

using namespace vf;

static void check_case(vg::Src& s, vh::Ctx& c)
{
    FlowOpts o;
    o.grid.max_side = c.arg > 0 ? static_cast<size_t>(c.arg) : 8;
    o.grid.mesh_max_side = 5;
    o.every_component = !s.chance(40);
    FlowCase fc = gen_flow_case(s, o);
    ProgInfo pi;
    std::vector<OpSpec> ops;
    // make sure at least one snapshot is present
    for (int tries = 0; tries < 4; ++tries)
    {
        ops = gen_valid_program(s, true, &pi);
        bool has = false;
        for (auto& op : ops)
            has = has || op.kind == va::OP_SNAPSHOT;
        if (has)
            break;
    }
    {
        bool has = false;
        for (auto& op : ops)
            has = has || op.kind == va::OP_SNAPSHOT;
        if (!has)
        {
            // insert a graph snapshot right after the first router
            for (size_t k = 0; k < ops.size(); ++k)
                if (ops[k].kind == va::OP_SINGLE || ops[k].kind == va::OP_MULTI)
                {
                    ops.insert(ops.begin() + static_cast<long>(k) + 1, vg::op_snap("ins", true, s.coin()));
                    break;
                }
        }
    }
    size_t updates = s.range(1, 3);
    std::vector<std::vector<double>> fields = { fc.z };
    for (size_t u = 1; u < updates; ++u)
        fields.push_back(vg::gen_field(s, fc.m));
    std::vector<double> src = vg::gen_field(s, fc.m, nullptr, true);
    c.desc = fc.describe() + " ops=" + vg::describe(ops) + " updates=" + std::to_string(updates);
    for (size_t u = 1; u < updates; ++u)
        c.desc += " z" + std::to_string(u) + "=" + vg::describe_field(fields[u], 0);
    c.announce();
    label_case(c, fc);
    c.label("prog=" + label_prog(ops));
    size_t n = fc.m.n;
    vg::ProgModel pm = vg::model_program(ops);
    c.expect(pm.accepted, "harness-program", "generated program rejected by the model: " + pm.reject_reason);

    Built main = build(fc, ops, c);
    // prefix graphs (fresh grid each), one per snapshot
    struct Snap
    {
        size_t pos;
        OpSpec spec;
        Built prefix;
        bool single;
        bool later_changes;
        va::UpdateResult last;  // the prefix graph's result for the latest input
    };
    std::vector<Snap> snaps;
    for (size_t p = 0; p < ops.size(); ++p)
    {
        if (ops[p].kind != va::OP_SNAPSHOT)
            continue;
        Snap sn;
        sn.pos = p;
        sn.spec = ops[p];
        std::vector<OpSpec> pre;
        bool has_router = false, single = false;
        for (size_t k = 0; k < p; ++k)
            if (ops[k].kind != va::OP_SNAPSHOT)
            {
                pre.push_back(ops[k]);
                if (ops[k].kind == va::OP_SINGLE || ops[k].kind == va::OP_MST)
                {
                    has_router = true;
                    single = true;
                }
                if (ops[k].kind == va::OP_MULTI)
                {
                    has_router = true;
                    single = false;
                }
            }
        if (!has_router)
            pre.push_back(vg::op_single(0));  // elevation-only snapshot: a router does not edit elevation
        sn.single = single;
        sn.later_changes = false;
        for (size_t k = p + 1; k < ops.size(); ++k)
            if (ops[k].kind == va::OP_MST || ops[k].kind == va::OP_SINGLE || ops[k].kind == va::OP_MULTI)
                sn.later_changes = true;
        sn.prefix = build(fc, pre, c);
        snaps.push_back(std::move(sn));
    }
    bool nt = false;
    // compares every snapshot with its prefix graph; `fresh` = right after an update (the prefix
    // graphs are updated with the same input first), otherwise a re-read of the snapshots while
    // the main graph was given new settings for the NEXT update (nothing may have changed)
    auto compare_all = [&](size_t u, const std::string& ut, bool fresh)
    {
        for (auto& sn : snaps)
        {
            if (fresh)
                sn.last = sn.prefix.graph->update_routes(fields[u]);
            const auto& pres = sn.last;
            std::string st = ut + "snapshot '" + sn.spec.name + "' at position " + std::to_string(sn.pos) + ": ";
            if (sn.spec.save_elev)
            {
                auto es = main.graph->elevation_snapshot(sn.spec.name);
                c.expect(es.size() == n, "elevation-snapshot-size", st);
                for (size_t i = 0; i < n; ++i)
                    if (!vg::biteq(es[i], pres.out[i]))
                        c.fail("elevation-snapshot", st + "node " + std::to_string(i) + ": snapshot " + vg::fmt(es[i]) + " but the elevation at that point of the sequence is " + vg::fmt(pres.out[i]));
            }
            if (!sn.spec.save_graph)
                continue;
            if (sn.later_changes)
                nt = true;
            va::IGraph& sg = main.graph->graph_snapshot(sn.spec.name);
            GraphState ss = sg.state();
            GraphState ps = sn.prefix.graph->state();
            std::string d = cmp_upto_counts(ss, ps, true);
            if (!d.empty())
                c.fail("snapshot-state", st + d);
            // derived results through the snapshot graph's own API
            auto a1 = sg.accumulate(0, src, 0, 0), a2 = sn.prefix.graph->accumulate(0, src, 0, 0);
            for (size_t i = 0; i < n; ++i)
                if (!vg::biteq(a1[i], a2[i]))
                    c.fail("snapshot-accumulate", st + "node " + std::to_string(i) + ": " + vg::fmt(a1[i]) + " vs " + vg::fmt(a2[i]));
            if (sn.single)
            {
                auto b1 = sg.basins(), b2 = sn.prefix.graph->basins();
                if (b1 != b2)
                {
                    size_t i = 0;
                    while (i < n && b1[i] == b2[i])
                        ++i;
                    c.fail("snapshot-basins", st + "node " + std::to_string(i) + ": snapshot label " + std::to_string(b1[i]) + " prefix graph label " + std::to_string(b2[i]));
                }
                auto sorted = [](std::vector<size_t> v)
                {
                    std::sort(v.begin(), v.end());
                    return v;
                };
                if (sorted(sg.outlets()) != sorted(sn.prefix.graph->outlets()))
                    c.fail("snapshot-outlets", st);
                if (sorted(sg.pits()) != sorted(sn.prefix.graph->pits()))
                    c.fail("snapshot-pits", st + "pits() " + vg::describe_set(sg.pits()) + " vs " + vg::describe_set(sn.prefix.graph->pits()));
            }
            for (int kind : { va::KERNEL_BREADTH_UPSTREAM, va::KERNEL_DEPTH_UPSTREAM, va::KERNEL_ANY })
            {
                auto k1 = sg.apply_kernel(kind, 1, 0, 0, src), k2 = sn.prefix.graph->apply_kernel(kind, 1, 0, 0, src);
                for (size_t i = 0; i < n; ++i)
                    if (!vg::biteq(k1[i], k2[i]))
                        c.fail("snapshot-kernel", st + "kernel " + std::to_string(kind) + " node " + std::to_string(i));
            }
            if (!fresh)
                continue;
            // read-only
            auto refuses = [&](const char* what, auto&& fn)
            {
                bool threw = false;
                try
                {
                    fn();
                }
                catch (const std::exception&)  // "refused with an error": any error type counts
                {
                    threw = true;
                }
                if (!threw)
                    c.fail("snapshot-not-read-only", st + what + " on a snapshot graph was accepted");
            };
            refuses("update_routes", [&] { sg.update_routes(fields[u]); });
            refuses("set_base_levels", [&] { sg.set_base_levels(fc.bl); });
            refuses("set_mask", [&] { sg.set_mask(std::vector<uint8_t>(n, 0)); });
            // ... and the refused calls left the snapshot untouched
            std::string d2 = cmp_upto_counts(sg.state(), ps, true);
            if (!d2.empty())
                c.fail("snapshot-state-after-refused-calls", st + d2);
        }
    };
    for (size_t u = 0; u < updates; ++u)
    {
        std::string ut = "update#" + std::to_string(u + 1) + " ";
        if (u > 0 && s.chance(140))
        {
            // new mask / base levels on the MAIN graph, in preparation of the next update: the
            // snapshots of the previous update must not move (seeded change C16-F) ...
            std::string what = mutate_settings(s, fc, *main.graph, false);
            if (!what.empty())
            {
                c.desc += " |" + what;
                if (c.verbose)
                    std::cout << "STEP" << what << std::endl;
                c.label("settings-changed-between-updates");
                compare_all(u - 1, "after" + what + " (before update#" + std::to_string(u + 1) + ") ", false);
                // ... and the prefix graphs get the same settings for the next update
                for (auto& sn : snaps)
                    apply_settings(*sn.prefix.graph, fc);
            }
        }
        main.graph->update_routes(fields[u]);
        compare_all(u, ut, true);
    }
    c.nontrivial = nt;
    c.label("snapshots=" + std::to_string(snaps.size()));
    c.label("updates=" + std::to_string(updates));
}
