// C14 -- hillslope diffusion step equals the alternating-direction (Peaceman-Rachford) scheme.
#define PROPERTY_ID "C14"
#include <cfloat>
#include "flowcase.hpp"

typedef long double LD;

namespace
{
    // dense solve with partial pivoting (n small)
    template <class LD>
    std::vector<LD> solve(std::vector<std::vector<LD>> A, std::vector<LD> b)
    {
        size_t n = b.size();
        for (size_t k = 0; k < n; ++k)
        {
            size_t p = k;
            for (size_t i = k + 1; i < n; ++i)
                if (std::fabs(A[i][k]) > std::fabs(A[p][k]))
                    p = i;
            std::swap(A[k], A[p]);
            std::swap(b[k], b[p]);
            for (size_t i = k + 1; i < n; ++i)
            {
                LD f = A[i][k] / A[k][k];
                if (f == 0)
                    continue;
                for (size_t j = k; j < n; ++j)
                    A[i][j] -= f * A[k][j];
                b[i] -= f * b[k];
            }
        }
        std::vector<LD> x(n);
        for (size_t ii = n; ii-- > 0;)
        {
            LD s = b[ii];
            for (size_t j = ii + 1; j < n; ++j)
                s -= A[ii][j] * x[j];
            x[ii] = s / A[ii][ii];
        }
        return x;
    }

    // two half steps of the ADI scheme with face-averaged diffusivity, fixed-value borders
    template <class LD>
    std::vector<LD> model_adi(size_t nr, size_t nc, double dy, double dx, const std::vector<double>& z, const std::vector<double>& K, double dt)
    {
        auto k = [&](size_t r, size_t c) -> LD { return K[r * nc + c]; };
        LD hy = 0.5L * dt / (static_cast<LD>(dy) * dy), hx = 0.5L * dt / (static_cast<LD>(dx) * dx);  // half time step / spacing^2
        auto ky_lo = [&](size_t r, size_t c) { return hy * (k(r - 1, c) + k(r, c)) / 2; };          // face r-1/2
        auto ky_hi = [&](size_t r, size_t c) { return hy * (k(r, c) + k(r + 1, c)) / 2; };          // face r+1/2
        auto kx_lo = [&](size_t r, size_t c) { return hx * (k(r, c - 1) + k(r, c)) / 2; };
        auto kx_hi = [&](size_t r, size_t c) { return hx * (k(r, c) + k(r, c + 1)) / 2; };
        std::vector<std::vector<LD>> u(nr, std::vector<LD>(nc)), us, uss;
        for (size_t r = 0; r < nr; ++r)
            for (size_t c = 0; c < nc; ++c)
                u[r][c] = z[r * nc + c];
        us = u;
        // first half step: implicit along each row (x direction), explicit across rows
        for (size_t r = 1; r + 1 < nr; ++r)
        {
            std::vector<std::vector<LD>> A(nc, std::vector<LD>(nc, 0));
            std::vector<LD> b(nc);
            A[0][0] = 1;
            b[0] = u[r][0];
            A[nc - 1][nc - 1] = 1;
            b[nc - 1] = u[r][nc - 1];
            for (size_t c = 1; c + 1 < nc; ++c)
            {
                A[c][c - 1] = -kx_lo(r, c);
                A[c][c] = 1 + kx_lo(r, c) + kx_hi(r, c);
                A[c][c + 1] = -kx_hi(r, c);
                b[c] = u[r][c] + ky_lo(r, c) * (u[r - 1][c] - u[r][c]) + ky_hi(r, c) * (u[r + 1][c] - u[r][c]);
            }
            auto x = solve(A, b);
            for (size_t c = 0; c < nc; ++c)
                us[r][c] = x[c];
        }
        uss = us;
        // second half step: implicit along each column (y direction), explicit across columns
        for (size_t c = 1; c + 1 < nc; ++c)
        {
            std::vector<std::vector<LD>> A(nr, std::vector<LD>(nr, 0));
            std::vector<LD> b(nr);
            A[0][0] = 1;
            b[0] = us[0][c];
            A[nr - 1][nr - 1] = 1;
            b[nr - 1] = us[nr - 1][c];
            for (size_t r = 1; r + 1 < nr; ++r)
            {
                A[r][r - 1] = -ky_lo(r, c);
                A[r][r] = 1 + ky_lo(r, c) + ky_hi(r, c);
                A[r][r + 1] = -ky_hi(r, c);
                b[r] = us[r][c] + kx_lo(r, c) * (us[r][c - 1] - us[r][c]) + kx_hi(r, c) * (us[r][c + 1] - us[r][c]);
            }
            auto x = solve(A, b);
            for (size_t r = 0; r < nr; ++r)
                uss[r][c] = x[r];
        }
        std::vector<LD> out(nr * nc);
        for (size_t r = 0; r < nr; ++r)
            for (size_t c = 0; c < nc; ++c)
                out[r * nc + c] = uss[r][c];
        return out;
    }
}

static void check_case(vg::Src& s, vh::Ctx& c)
{
    vg::GridOpts go;
    go.profile = go.mesh = false;
    go.min_side = 3;
    go.max_side = c.arg > 0 ? static_cast<size_t>(c.arg) : 10;
    va::GridSpec sp = vg::gen_grid(s, go);
    vm::ModelGrid m = vm::build_model(sp);
    size_t nr = sp.rows, nc = sp.cols, n = nr * nc;
    // effective spacing (from_length divides a length)
    double dy = sp.dy, dx = sp.dx;
    if (sp.from_length)
    {
        dy = (static_cast<double>(nr - 1) * sp.dy) / (static_cast<double>(nr) - 1);
        dx = (static_cast<double>(nc - 1) * sp.dx) / (static_cast<double>(nc) - 1);
    }
    // field
    vg::FieldInfo fi;
    std::vector<double> z = vg::gen_field(s, m, &fi, true);
    double zs = std::pow(10.0, static_cast<int>(s.range(0, 6)) - 2);
    for (auto& v : z)
        v *= zs;
    // small relief on a high (or deep) level: plateau at 1000 m with millimetre noise, sea floor
    // at -4000 m ... (relative relief 1e-7..1e-4: far above rounding, far below the level)
    bool plateau = s.chance(36);
    if (plateau)
    {
        static const double levels[] = { 1000.0, -4000.0, 1e6, 25.0 };
        double L = levels[s.u8() % 4];
        double rel = std::pow(10.0, -static_cast<int>(s.range(4, 7)));
        double zm = 0;
        for (auto v : z)
            zm = std::max(zm, std::fabs(v));
        if (zm == 0)
            zm = 1;
        for (auto& v : z)
            v = L + v / zm * std::fabs(L) * rel;
    }
    // diffusivity
    size_t kcls = s.weighted({ 90, 40, 60, 66 });  // scalar, uniform array, smooth, rough
    double ks = std::pow(10.0, static_cast<int>(s.range(0, 8)) - 4) * (0.5 + s.unit());
    std::vector<double> K(n, ks);
    if (kcls == 2)
        for (size_t i = 0; i < n; ++i)
            K[i] = ks * (1.5 + std::sin(0.7 * static_cast<double>(i / nc)) * std::cos(0.9 * static_cast<double>(i % nc)));
    else if (kcls == 3)
    {
        double contrast = static_cast<double>(s.range(1, 6));
        for (size_t i = 0; i < n; ++i)
            K[i] = ks * std::pow(10.0, contrast * static_cast<double>(s.u8()) / 255.0);
    }
    // time step
    size_t dtc = s.weighted({ 200, 16, 40 });
    double dt = dtc == 1 ? 0.0 : std::pow(10.0, static_cast<int>(s.range(0, dtc == 0 ? 9 : 16)) - 4) * (0.5 + s.unit());
    bool k_array = kcls != 0;
    c.desc = vm::describe(sp) + " z=" + vg::describe_field(z, nc) + " K=" + (k_array ? vg::describe_field(K, nc) : vg::fmt(ks)) + " dt=" + vg::fmt(dt);
    c.announce();

    auto grid = va::make_grid(sp);
    auto ero = va::make_diffusion(*grid, k_array, ks, K);
    auto e = ero->erode(z, dt);
    c.expect(e.size() == n, "erosion-size", "");
    auto ref = model_adi<LD>(nr, nc, dy, dx, z, K, dt);
    // the same scheme solved in plain double precision by a backward-stable dense solver: its
    // distance to the long-double solution measures the accuracy attainable in double precision
    // for THIS input (conditioning of the line systems with the given diffusivity contrast,
    // stiffness and line length), whatever the algorithm
    auto ref_d = model_adi<double>(nr, nc, dy, dx, z, K, dt);
    LD attainable = 0;
    for (size_t i = 0; i < n; ++i)
        attainable = std::max<LD>(attainable, fabsl(static_cast<LD>(ref_d[i]) - ref[i]));

    LD zmax = 0, kmax = 0, kmin = 1e300L;
    for (auto v : z)
        zmax = std::max<LD>(zmax, fabsl(v));
    for (auto v : K)
    {
        kmax = std::max<LD>(kmax, v);
        kmin = std::min<LD>(kmin, v);
    }
    // Peaceman-Rachford is not L-stable: the explicit half of one sweep is amplified by the
    // stiffness of the other axis; attainable accuracy scales with this amplification factor
    LD fr = 0.25L / (static_cast<LD>(dy) * dy), fc = 0.25L / (static_cast<LD>(dx) * dx);
    LD amp = 1 + 4 * fc * kmax * dt / (1 + 4 * fr * kmin * dt) + 4 * fr * kmax * dt / (1 + 4 * fc * kmin * dt);
    // the bound was calibrated on grids of up to 10 nodes per axis; the forward error of the
    // tridiagonal solves grows with the length of the lines (observed on 24 x 24 grids with a
    // diffusivity contrast of 1e6: 1000 units at amplification 2e6), hence the size factor
    LD nmax = static_cast<LD>(std::max(nr, nc));
    LD size_factor = std::max<LD>(1, (nmax / 10) * (nmax / 10));
    amp *= size_factor;
    LD tol = std::max<LD>(1000 * static_cast<LD>(DBL_EPSILON) * zmax * amp, 1000 * attainable) + 1e-300L;
    for (size_t r = 0; r < nr; ++r)
        for (size_t cc = 0; cc < nc; ++cc)
        {
            size_t i = r * nc + cc;
            bool border = r == 0 || cc == 0 || r + 1 == nr || cc + 1 == nc;
            if (!std::isfinite(e[i]))
                c.fail("not-finite", "node (" + std::to_string(r) + "," + std::to_string(cc) + ")");
            if (border)
            {
                if (e[i] != 0.0)
                    c.fail("border-erosion", "border node (" + std::to_string(r) + "," + std::to_string(cc) + ") has erosion " + vg::fmt(e[i]));
                continue;
            }
            LD want = static_cast<LD>(z[i]) - ref[i];
            if (!(fabsl(static_cast<LD>(e[i]) - want) <= tol))
                c.fail("interior-differs-from-adi", "node (" + std::to_string(r) + "," + std::to_string(cc) + "): erosion " + vg::fmt(e[i]) + " but the two-half-step scheme gives " + vg::fmt(static_cast<double>(want)) + " (tolerance " + vg::fmt(static_cast<double>(tol)) + ", amplification " + vg::fmt(static_cast<double>(amp)) + ")");
        }
    // scalar diffusivity == uniform array
    if (kcls <= 1)
    {
        auto ero2 = va::make_diffusion(*grid, !k_array, ks, K);
        auto e2 = ero2->erode(z, dt);
        for (size_t i = 0; i < n; ++i)
            if (!(fabsl(static_cast<LD>(e2[i]) - e[i]) <= tol))
                c.fail("scalar-vs-uniform-array", "node " + std::to_string(i) + ": " + vg::fmt(e[i]) + " vs " + vg::fmt(e2[i]));
        // k_coef() reports the value either way
        auto kc = ero2->k_coef();
        for (size_t i = 0; i < kc.size(); ++i)
            if (kc[i] != ks)
                c.fail("k-coef-accessor", "k_coef()[" + std::to_string(i) + "] = " + vg::fmt(kc[i]));
    }
    // linearity: erode(a u + b v) = a erode(u) + b erode(v)
    {
        std::vector<double> v2 = vg::gen_field(s, m, nullptr, true);
        double a = 1.0 + static_cast<double>(s.u8() % 5), b = -2.0 + static_cast<double>(s.u8() % 5);
        std::vector<double> comb(n);
        LD vmax = 0;
        for (size_t i = 0; i < n; ++i)
        {
            v2[i] *= zs;
            comb[i] = a * z[i] + b * v2[i];
            vmax = std::max<LD>(vmax, fabsl(v2[i]));
        }
        auto ev = ero->erode(v2, dt);
        auto ec = ero->erode(comb, dt);
        LD tl = 1000 * static_cast<LD>(DBL_EPSILON) * (std::fabs(a) * zmax + std::fabs(b) * vmax) * amp * 3 + 1e-300L;
        for (size_t i = 0; i < n; ++i)
        {
            LD want = static_cast<LD>(a) * e[i] + static_cast<LD>(b) * ev[i];
            if (!(fabsl(static_cast<LD>(ec[i]) - want) <= tl))
                c.fail("not-linear", "node " + std::to_string(i) + ": erode(a u + b v) = " + vg::fmt(ec[i]) + " but a erode(u) + b erode(v) = " + vg::fmt(static_cast<double>(want)));
        }
    }
    // adding a constant to the elevation does not change the erosion (linearity and zero erosion
    // of a constant field)
    {
        static const double shifts[] = { 1000.0, -250.0, 1e5, 3.0 };
        double sh = shifts[s.u8() % 4];
        std::vector<double> zsft(n);
        for (size_t i = 0; i < n; ++i)
            zsft[i] = z[i] + sh;
        auto es = ero->erode(zsft, dt);
        LD tsh = 1000 * static_cast<LD>(DBL_EPSILON) * (zmax + std::fabs(sh)) * amp * 3 + 1e-300L;
        for (size_t i = 0; i < n; ++i)
            if (!(fabsl(static_cast<LD>(es[i]) - e[i]) <= tsh))
                c.fail("not-translation-invariant", "node " + std::to_string(i) + ": erode(z + " + vg::fmt(sh) + ") = " + vg::fmt(es[i]) + " but erode(z) = " + vg::fmt(e[i]));
    }
    // the same eroder object re-used with another diffusivity (scalar <-> array) and field:
    // precomputed factors and scratch arrays must not leak from the previous step
    bool reused = false;
    std::vector<double> Kcur = K, elast;
    if (s.chance(110))
    {
        reused = true;
        bool new_array = kcls == 0 ? true : s.coin();
        double ks2 = std::pow(10.0, static_cast<int>(s.range(0, 8)) - 4) * (0.5 + s.unit());
        std::vector<double> K2(n, ks2);
        if (new_array)
        {
            double contrast = static_cast<double>(s.range(0, 4));
            for (size_t i = 0; i < n; ++i)
                K2[i] = ks2 * std::pow(10.0, contrast * static_cast<double>(s.u8()) / 255.0);
            ero->set_k_array(K2);
        }
        else
            ero->set_k_scalar(ks2);
        if (s.chance(40))
        {
            // a refused call (diffusivity array of the wrong shape) leaves the eroder as it was
            bool threw = false;
            try
            {
                ero->set_k_array_bad_shape();
            }
            catch (const std::exception&)
            {
                threw = true;
            }
            if (threw)
                c.label("refused-set_k_coef");
            else
            {
                // accepted: no statement says what it means - set the known diffusivity again
                if (new_array)
                    ero->set_k_array(K2);
                else
                    ero->set_k_scalar(ks2);
            }
        }
        std::vector<double> z2 = vg::gen_field(s, m, nullptr, true);
        for (auto& v : z2)
            v *= zs;
        double dt2 = s.coin() ? dt : std::pow(10.0, static_cast<int>(s.range(0, 9)) - 4) * (0.5 + s.unit());
        auto e2 = ero->erode(z2, dt2);
        auto ref2 = model_adi<LD>(nr, nc, dy, dx, z2, K2, dt2);
        auto ref2_d = model_adi<double>(nr, nc, dy, dx, z2, K2, dt2);
        LD attainable2 = 0;
        for (size_t i = 0; i < n; ++i)
            attainable2 = std::max<LD>(attainable2, fabsl(static_cast<LD>(ref2_d[i]) - ref2[i]));
        LD zmax2 = 0, kmax2 = 0, kmin2 = 1e300L;
        for (auto v : z2)
            zmax2 = std::max<LD>(zmax2, fabsl(v));
        for (auto v : K2)
        {
            kmax2 = std::max<LD>(kmax2, v);
            kmin2 = std::min<LD>(kmin2, v);
        }
        LD amp2 = 1 + 4 * fc * kmax2 * dt2 / (1 + 4 * fr * kmin2 * dt2) + 4 * fr * kmax2 * dt2 / (1 + 4 * fc * kmin2 * dt2);
        LD tol2 = std::max<LD>(1000 * static_cast<LD>(DBL_EPSILON) * zmax2 * amp2 * size_factor, 1000 * attainable2) + 1e-300L;
        for (size_t r = 0; r < nr; ++r)
            for (size_t cc = 0; cc < nc; ++cc)
            {
                size_t i = r * nc + cc;
                bool border = r == 0 || cc == 0 || r + 1 == nr || cc + 1 == nc;
                LD want = border ? 0 : static_cast<LD>(z2[i]) - ref2[i];
                if (border ? e2[i] != 0.0 : !(fabsl(static_cast<LD>(e2[i]) - want) <= tol2))
                    c.fail("reused-eroder-differs-from-adi", "second step on the same eroder (K " + std::string(new_array ? "array" : "scalar") + "), node (" + std::to_string(r) + "," + std::to_string(cc) + "): erosion " + vg::fmt(e2[i]) + " but the scheme gives " + vg::fmt(static_cast<double>(want)));
            }
        c.label("eroder-reused");
        Kcur = K2;
    }
    (void) reused;
    if (s.chance(50))
    {
        // the array returned by the previous step handed back, BY REFERENCE, as the elevation of
        // the next step (erode(erode(h, dt), dt)): an elevation field like any other, its storage
        // happens to be the eroder's own result buffer (seeded change C14-F)
        double dt3 = std::pow(10.0, static_cast<int>(s.range(0, 6)) - 3) * (0.5 + s.unit());
        elast = ero->erode(z, dt);  // (other steps ran on this eroder in between: its buffer holds their result)
        auto e3 = ero->erode_last(dt3);
        auto ref3 = model_adi<LD>(nr, nc, dy, dx, elast, Kcur, dt3);
        auto ref3_d = model_adi<double>(nr, nc, dy, dx, elast, Kcur, dt3);
        LD att3 = 0, zmax3 = 0, kmax3 = 0, kmin3 = 1e300L;
        for (size_t i = 0; i < n; ++i)
        {
            att3 = std::max<LD>(att3, fabsl(static_cast<LD>(ref3_d[i]) - ref3[i]));
            zmax3 = std::max<LD>(zmax3, fabsl(elast[i]));
            kmax3 = std::max<LD>(kmax3, Kcur[i]);
            kmin3 = std::min<LD>(kmin3, Kcur[i]);
        }
        LD amp3 = 1 + 4 * fc * kmax3 * dt3 / (1 + 4 * fr * kmin3 * dt3) + 4 * fr * kmax3 * dt3 / (1 + 4 * fc * kmin3 * dt3);
        LD tol3 = std::max<LD>(1000 * static_cast<LD>(DBL_EPSILON) * zmax3 * amp3 * size_factor, 1000 * att3) + 1e-300L;
        for (size_t r = 0; r < nr; ++r)
            for (size_t cc = 0; cc < nc; ++cc)
            {
                size_t i = r * nc + cc;
                bool border = r == 0 || cc == 0 || r + 1 == nr || cc + 1 == nc;
                LD want = border ? 0 : static_cast<LD>(elast[i]) - ref3[i];
                if (border ? e3[i] != 0.0 : !(fabsl(static_cast<LD>(e3[i]) - want) <= tol3))
                    c.fail("own-output-as-input-differs-from-adi", "step on the array returned by the previous step, node (" + std::to_string(r) + "," + std::to_string(cc) + "): erosion " + vg::fmt(e3[i]) + " but the scheme applied to that field gives " + vg::fmt(static_cast<double>(want)) + " (dt=" + vg::fmt(dt3) + ", tolerance " + vg::fmt(static_cast<double>(tol3)) + ", amplification " + vg::fmt(static_cast<double>(amp3)) + ", input magnitude " + vg::fmt(static_cast<double>(zmax3)) + ")");
            }
        c.label("own-output-as-input");
    }
    LD stiff = std::max(4 * fr * kmax * dt, 4 * fc * kmax * dt);
    c.nontrivial = (nr != nc || dy != dx) && kcls >= 2 && stiff >= 0.1L && amp <= 1e6L * size_factor;
    c.label(kcls == 0 ? "K=scalar" : kcls == 1 ? "K=uniform-array" : kcls == 2 ? "K=smooth" : "K=rough");
    c.label(stiff >= 100 ? "stiff>=100" : stiff >= 0.1L ? "stiff>=0.1" : "stiff<0.1");
    c.label(amp <= 1e6L ? "amp<=1e6" : "amp>1e6");
    c.label(sp.cache ? "cache" : "nocache");
    if (plateau)
        c.label("small-relief-on-high-level");
    if (m.hloop || m.vloop)
        c.label("looped-borders(ignored)");
}
