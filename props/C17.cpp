// C17 -- node status rules and status-filtered iteration are exact.
#define PROPERTY_ID "C17"
#include "adapter.hpp"
#include "gen.hpp"
#include "harness.hpp"

static std::string vec_str(const std::vector<size_t>& v)
{
    return vg::describe_set(v);
}

static void check_case(vg::Src& s, vh::Ctx& c)
{
    vg::GridOpts o;
    o.valid_only = !s.chance(110);  // ~43% of the cases may carry a rejected configuration
    o.max_side = c.arg > 0 ? static_cast<size_t>(c.arg) : 9;
    o.profile_max = 24;
    va::GridSpec sp = vg::gen_grid(s, o);
    vm::ModelGrid m = vm::build_model(sp);
    c.desc = vm::describe(sp) + (m.ctor_throws ? " => model: rejected (" + m.throw_reason + ")" : " => model: accepted");
    c.announce();
    c.label(std::string("kind=") + (sp.kind == va::K_RASTER ? "raster" : sp.kind == va::K_PROFILE ? "profile" : "trimesh"));
    c.label(m.ctor_throws ? "rejected:" + m.throw_reason : "accepted");

    std::unique_ptr<va::IGrid> g;
    bool threw = false;
    std::string what;
    try
    {
        g = va::make_grid(sp);
    }
    catch (const std::logic_error& e)  // invalid_argument, out_of_range (.at / check_size)
    {
        threw = true;
        what = e.what();
    }
    catch (const std::runtime_error& e)
    {
        threw = true;
        what = e.what();
    }
    c.expect(threw == m.ctor_throws,
             "ctor-accept-reject",
             std::string("constructor ") + (threw ? "threw (" + what + ")" : "accepted") + " but the status rules say "
                 + (m.ctor_throws ? "reject: " + m.throw_reason : "accept"));
    if (threw)
    {
        c.nontrivial = true;
        return;
    }
    // status array
    auto st = g->status_array();
    c.expect(st.size() == m.n, "status-size", "status array size " + std::to_string(st.size()));
    for (size_t i = 0; i < m.n; ++i)
    {
        if (st[i] != m.status[i])
            c.fail("status-array",
                   "node " + std::to_string(i) + ": library " + vm::status_name(st[i]) + ", rules " + vm::status_name(m.status[i]));
        if (g->status(i) != st[i])
            c.fail("status-accessor", "nodes_status(idx) differs from the array at node " + std::to_string(i));
    }
    // iteration, forward and reverse, for no filter and each status
    size_t matches_total = 0;
    for (int f = -1; f <= 3; ++f)
    {
        std::vector<size_t> expect;
        for (size_t i = 0; i < m.n; ++i)
            if (f < 0 || m.status[i] == f)
                expect.push_back(i);
        if (f >= 0)
            matches_total += expect.size();
        auto fw = g->iter(f, false);
        if (fw != expect)
            c.fail("iter-forward", "filter " + std::to_string(f) + ": got " + vec_str(fw) + " expected " + vec_str(expect));
        auto rv = g->iter(f, true);
        std::reverse(expect.begin(), expect.end());
        if (rv != expect)
            c.fail("iter-reverse", "filter " + std::to_string(f) + ": got " + vec_str(rv) + " expected " + vec_str(expect));
    }
    // default base levels of a new flow graph = fixed-value nodes
    {
        std::vector<va::OpSpec> ops = { s.coin() ? vg::op_single(0, true) : vg::op_multi(1.0) };
        auto graph = va::make_graph(*g, ops);
        auto bl = graph->base_levels();
        std::sort(bl.begin(), bl.end());
        std::vector<size_t> fv;
        for (size_t i = 0; i < m.n; ++i)
            if (m.status[i] == va::ST_FIXED_VALUE)
                fv.push_back(i);
        if (bl != fv)
            c.fail("default-base-levels", "got " + vec_str(bl) + " expected fixed-value nodes " + vec_str(fv));
        if (std::adjacent_find(bl.begin(), bl.end()) != bl.end())
            c.fail("default-base-levels", "duplicates in base levels");
    }
    std::set<uint8_t> distinct;
    for (auto x : m.status)
        distinct.insert(x);
    bool has_override = !sp.overrides.empty() || (sp.kind == va::K_TRIMESH && sp.mesh_status_mode != 0);
    c.nontrivial = distinct.size() >= 2 || has_override;
    c.label("distinct-statuses=" + std::to_string(distinct.size()));
    if (has_override)
        c.label("override");
    if (m.hloop || m.vloop)
        c.label("looped");
}
