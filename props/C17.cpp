// C17 -- node status rules and status-filtered iteration are exact.
#define PROPERTY_ID "C17"
#define VH_HAS_ENUM
#include "adapter.hpp"
#include "gen.hpp"
#include "harness.hpp"

static std::string vec_str(const std::vector<size_t>& v)
{
    return vg::describe_set(v);
}

// Complete enumeration of the border-status combinations: 4^4 raster combinations on the
// shapes 2x2, 2x3, 3x2, 3x4 for each connectivity, 4^2 profile combinations on sizes 2, 3, 5;
// every one through the status-array constructor and (when all four are equal) also through the
// single-status constructor.  Encoded as the byte string {0xEE, kind, connect, shape, borders...}.
static const size_t N_RASTER_SHAPES = 4, N_PROFILE_SIZES = 3;
static const size_t N_BASE = 256 * N_RASTER_SHAPES * 3 + 16 * N_PROFILE_SIZES + 4 * (N_RASTER_SHAPES * 3 + N_PROFILE_SIZES);
// second enumerated space: every single override entry (12 in-range positions + 2 out-of-range,
// 4 statuses) on a 3x4 queen raster under every border combination: 256 x 14 x 4
static const size_t N_OVR = 256 * 14 * 4;
static size_t enum_count()
{
    return N_BASE + N_OVR;
}
static std::vector<uint8_t> enum_case(size_t k)
{
    if (k >= N_BASE)
    {
        k -= N_BASE;
        size_t combo = k % 256, rest = k / 256;
        size_t pos = rest % 14, st = rest / 14;
        return { 0xEE, 0, 1 /* queen */, 3 /* 3x4 */, static_cast<uint8_t>(combo & 3), static_cast<uint8_t>((combo >> 2) & 3), static_cast<uint8_t>((combo >> 4) & 3), static_cast<uint8_t>((combo >> 6) & 3), 0, 1, static_cast<uint8_t>(pos), static_cast<uint8_t>(st) };
    }
    size_t nr = 256 * N_RASTER_SHAPES * 3, np = 16 * N_PROFILE_SIZES;
    if (k < nr)
    {
        size_t combo = k % 256, rest = k / 256;
        return { 0xEE, 0, static_cast<uint8_t>(rest % 3), static_cast<uint8_t>(rest / 3), static_cast<uint8_t>(combo & 3), static_cast<uint8_t>((combo >> 2) & 3), static_cast<uint8_t>((combo >> 4) & 3), static_cast<uint8_t>((combo >> 6) & 3), 0 };
    }
    k -= nr;
    if (k < np)
        return { 0xEE, 1, 0, static_cast<uint8_t>(k / 16), static_cast<uint8_t>(k & 3), static_cast<uint8_t>((k >> 2) & 3), 0, 0, 0 };
    k -= np;
    // uniform constructor
    size_t st = k % 4, which = k / 4;
    if (which < N_RASTER_SHAPES * 3)
        return { 0xEE, 0, static_cast<uint8_t>(which % 3), static_cast<uint8_t>(which / 3), static_cast<uint8_t>(st), static_cast<uint8_t>(st), static_cast<uint8_t>(st), static_cast<uint8_t>(st), 1 };
    which -= N_RASTER_SHAPES * 3;
    return { 0xEE, 1, 0, static_cast<uint8_t>(which), static_cast<uint8_t>(st), static_cast<uint8_t>(st), 0, 0, 1 };
}

static va::GridSpec enumerated_spec(vg::Src& s)
{
    va::GridSpec sp;
    static const uint8_t stat[] = { va::ST_CORE, va::ST_FIXED_VALUE, va::ST_FIXED_GRADIENT, va::ST_LOOPED };
    static const size_t shapes[][2] = { { 2, 2 }, { 2, 3 }, { 3, 2 }, { 3, 4 } };
    static const size_t psizes[] = { 2, 3, 5 };
    bool profile = s.u8() % 2 == 1;
    size_t conn = s.u8() % 3, shape = s.u8();
    sp.kind = profile ? va::K_PROFILE : va::K_RASTER;
    sp.connect = static_cast<int>(conn);
    if (profile)
    {
        sp.rows = 1;
        sp.cols = psizes[shape % N_PROFILE_SIZES];
    }
    else
    {
        sp.rows = shapes[shape % N_RASTER_SHAPES][0];
        sp.cols = shapes[shape % N_RASTER_SHAPES][1];
    }
    for (int b = 0; b < 4; ++b)
        sp.border[b] = stat[s.u8() % 4];
    sp.uniform_border_ctor = s.u8() % 2 == 1;
    sp.dy = 1.5;
    sp.dx = 2;
    if (s.u8() == 1 && !profile)
    {
        // one override entry: positions 0..11 in range (row-major), 12 = row out of range,
        // 13 = column out of range
        size_t pos = s.u8() % 14;
        va::Override ov;
        ov.row = pos < 12 ? pos / sp.cols : (pos == 12 ? sp.rows : 0);
        ov.col = pos < 12 ? pos % sp.cols : (pos == 13 ? sp.cols : 0);
        ov.status = stat[s.u8() % 4];
        sp.overrides.push_back(ov);
    }
    return sp;
}

static void check_case(vg::Src& s, vh::Ctx& c)
{
    vg::GridOpts o;
    va::GridSpec sp;
    if (s.n > 0 && s.d[0] == 0xEE)
    {
        s.u8();
        sp = enumerated_spec(s);
        c.label("enumerated-border-combination");
    }
    else
    {
        o.valid_only = !s.chance(110);  // ~43% of the cases may carry a rejected configuration
        o.max_side = c.arg > 0 ? static_cast<size_t>(c.arg) : 9;
        o.profile_max = 24;
        o.large_side = o.max_side > 12 ? 260 : 160;  // ~3 % large grids (size-dependent index arithmetic)
        sp = vg::gen_grid(s, o);
    }
    vm::ModelGrid m = vm::build_model(sp);
    c.desc = vm::describe(sp) + (m.ctor_throws ? " => model: rejected (" + m.throw_reason + ")" : " => model: accepted");
    c.announce();
    c.label(std::string("kind=") + (sp.kind == va::K_RASTER ? "raster" : sp.kind == va::K_PROFILE ? "profile" : "trimesh"));
    c.label(m.ctor_throws ? "rejected:" + m.throw_reason : "accepted");

    std::unique_ptr<va::IGrid> g;
    bool threw = false;
    std::string what;
    try
    {
        g = va::make_grid(sp);
    }
    catch (const std::exception& e)  // "fails with an error": any error type counts
    {
        threw = true;
        what = e.what();
    }
    if (!threw && m.ctor_throws && m.throw_reason == "override out of range")
    {
        // The statement lists what must be refused (asymmetric looped borders, looped as or over a
        // per-node override); an override whose index lies outside the grid designates no node.
        // The library refuses it; a library that ignored it would satisfy the statement as well -
        // then the array has to be the composition of the remaining entries.
        va::GridSpec sp_in = sp;
        sp_in.overrides.clear();
        for (auto& o : sp.overrides)
            if ((sp.kind == va::K_RASTER ? (o.row < sp.rows && o.col < sp.cols) : o.col < m.n))
                sp_in.overrides.push_back(o);
        m = vm::build_model(sp_in);
        c.label("out-of-range-override-ignored-by-the-library");
    }
    c.expect(threw == m.ctor_throws,
             "ctor-accept-reject",
             std::string("constructor ") + (threw ? "threw (" + what + ")" : "accepted") + " but the status rules say "
                 + (m.ctor_throws ? "reject: " + m.throw_reason : "accept"));
    if (threw)
    {
        c.nontrivial = true;
        return;
    }
    // status array
    auto st = g->status_array();
    c.expect(st.size() == m.n, "status-size", "status array size " + std::to_string(st.size()));
    for (size_t i = 0; i < m.n; ++i)
    {
        if (st[i] != m.status[i])
            c.fail("status-array",
                   "node " + std::to_string(i) + ": library " + vm::status_name(st[i]) + ", rules " + vm::status_name(m.status[i]));
        if (g->status(i) != st[i])
            c.fail("status-accessor", "nodes_status(idx) differs from the array at node " + std::to_string(i));
    }
    // iteration, forward and reverse, for no filter and each status
    size_t matches_total = 0;
    for (int f = -1; f <= 3; ++f)
    {
        std::vector<size_t> expect;
        for (size_t i = 0; i < m.n; ++i)
            if (f < 0 || m.status[i] == f)
                expect.push_back(i);
        if (f >= 0)
            matches_total += expect.size();
        auto fw = g->iter(f, false);
        if (fw != expect)
            c.fail("iter-forward", "filter " + std::to_string(f) + ": got " + vec_str(fw) + " expected " + vec_str(expect));
        auto rv = g->iter(f, true);
        std::reverse(expect.begin(), expect.end());
        if (rv != expect)
            c.fail("iter-reverse", "filter " + std::to_string(f) + ": got " + vec_str(rv) + " expected " + vec_str(expect));
    }
    // default base levels of a new flow graph = fixed-value nodes
    {
        std::vector<va::OpSpec> ops = { s.coin() ? vg::op_single(0, true) : vg::op_multi(1.0) };
        auto graph = va::make_graph(*g, ops);
        auto bl = graph->base_levels();
        std::sort(bl.begin(), bl.end());
        std::vector<size_t> fv;
        for (size_t i = 0; i < m.n; ++i)
            if (m.status[i] == va::ST_FIXED_VALUE)
                fv.push_back(i);
        if (bl != fv)
            c.fail("default-base-levels", "got " + vec_str(bl) + " expected fixed-value nodes " + vec_str(fv));
        if (std::adjacent_find(bl.begin(), bl.end()) != bl.end())
            c.fail("default-base-levels", "duplicates in base levels");
    }
    std::set<uint8_t> distinct;
    for (auto x : m.status)
        distinct.insert(x);
    bool has_override = !sp.overrides.empty() || (sp.kind == va::K_TRIMESH && sp.mesh_status_mode != 0);
    c.nontrivial = distinct.size() >= 2 || has_override;
    c.label("distinct-statuses=" + std::to_string(distinct.size()));
    if (has_override)
        c.label("override");
    if (m.hloop || m.vloop)
        c.label("looped");
}
