// C07 -- grid neighbourhoods match the grid geometry on every accessor.
#define PROPERTY_ID "C07"
#define VH_HAS_ENUM
#include "adapter.hpp"
#include "gen.hpp"
#include "harness.hpp"

namespace
{
    bool close4(double a, double b)
    {
        if (a == b)
            return true;
        long long d = vg::ulpdist(a, b);
        return d >= -4 && d <= 4;
    }

    struct Ent
    {
        size_t idx;
        double dist;
        bool operator<(const Ent& o) const
        {
            return idx < o.idx || (idx == o.idx && dist < o.dist);
        }
    };

    std::string show(const std::vector<Ent>& v)
    {
        std::string r = "{";
        for (auto& e : v)
            r += std::to_string(e.idx) + "@" + vg::fmt(e.dist) + " ";
        return r + "}";
    }

    // model answer as sorted multiset
    std::vector<Ent> model_set(const vm::ModelGrid& m, size_t i)
    {
        std::vector<Ent> v;
        for (auto& n : m.nb[i])
            v.push_back({ n.idx, n.dist });
        std::sort(v.begin(), v.end());
        return v;
    }

    void cmp_sets(vh::Ctx& c, const vm::ModelGrid& m, size_t i, std::vector<Ent> got, const char* accessor)
    {
        auto want = model_set(m, i);
        std::sort(got.begin(), got.end());
        bool ok = got.size() == want.size();
        for (size_t k = 0; ok && k < got.size(); ++k)
            ok = got[k].idx == want[k].idx && close4(want[k].dist, got[k].dist);
        if (!ok)
            c.fail(std::string("neighbors-") + accessor, "node " + std::to_string(i) + ": library " + show(got) + " geometry " + show(want));
    }

    double model_dist(const vm::ModelGrid& m, size_t i, size_t j)
    {
        for (auto& n : m.nb[i])
            if (n.idx == j)
                return n.dist;
        return -1;
    }

    enum
    {
        A_COUNT,
        A_IDX,
        A_IDX_IN,
        A_DIST,
        A_NB,
        A_NB_IN,
        A_NB_WALK,
        A_RC_IDX,
        A_RC_IDX_IN,
        A_RC_NB,
        A_RC_NB_IN,
        A_N
    };

    // one query against the model; returns the flat index sequence the accessor produced (order)
    std::vector<size_t> query(vh::Ctx& c, va::IGrid& g, const vm::ModelGrid& m, size_t i, int acc)
    {
        size_t cols = m.spec.cols;
        std::vector<size_t> order;
        switch (acc)
        {
            case A_COUNT:
            {
                size_t k = g.nb_count(i);
                if (k != m.nb[i].size())
                    c.fail("neighbors-count", "node " + std::to_string(i) + ": library " + std::to_string(k) + " geometry " + std::to_string(m.nb[i].size()));
                break;
            }
            case A_IDX:
            case A_IDX_IN:
            {
                auto v = acc == A_IDX ? g.nb_indices(i) : g.nb_indices_inplace(i);
                std::vector<Ent> e;
                for (auto j : v)
                {
                    if (j >= m.n)
                        c.fail("neighbors-indices", "node " + std::to_string(i) + ": index out of range " + std::to_string(j));
                    e.push_back({ j, model_dist(m, i, j) });
                }
                cmp_sets(c, m, i, e, acc == A_IDX ? "indices" : "indices-inplace");
                order = v;
                break;
            }
            case A_DIST:
            {
                auto d = g.nb_distances(i);
                auto v = g.nb_indices(i);
                if (d.size() != v.size())
                    c.fail("neighbors-distances", "node " + std::to_string(i) + ": distances size " + std::to_string(d.size()) + " vs indices size " + std::to_string(v.size()));
                std::vector<Ent> e;
                for (size_t k = 0; k < v.size(); ++k)
                    e.push_back({ v[k], d[k] });
                cmp_sets(c, m, i, e, "distances");
                order = v;
                break;
            }
            case A_NB:
            case A_NB_IN:
            {
                auto v = acc == A_NB ? g.nbs(i) : g.nbs_inplace(i);
                std::vector<Ent> e;
                for (auto& n : v)
                {
                    if (n.idx >= m.n)
                        c.fail("neighbors-struct", "index out of range");
                    e.push_back({ n.idx, n.dist });
                    if (n.status != g.status(n.idx))
                        c.fail("neighbors-status", "node " + std::to_string(i) + " neighbour " + std::to_string(n.idx) + ": reported status " + std::to_string(n.status) + " but the node's own status is " + std::to_string(g.status(n.idx)));
                    order.push_back(n.idx);
                }
                cmp_sets(c, m, i, e, acc == A_NB ? "struct" : "struct-inplace");
                break;
            }
            case A_NB_WALK:
            {
                // walking: neighbors(nb[k].idx, nb) - the index is a reference into the output
                auto first = g.nbs(i);
                for (auto& n : first)
                    order.push_back(n.idx);
                for (size_t k = 0; k < first.size(); ++k)
                {
                    size_t j = first[k].idx;
                    if (j >= m.n)
                        c.fail("neighbors-struct", "index out of range");
                    auto v = g.nbs_walk(i, k);
                    std::vector<Ent> e;
                    for (auto& n : v)
                    {
                        if (n.idx >= m.n)
                            c.fail("neighbors-struct", "index out of range");
                        e.push_back({ n.idx, n.dist });
                        if (n.status != g.status(n.idx))
                            c.fail("neighbors-status", "walk " + std::to_string(i) + "->" + std::to_string(j) + ": neighbour " + std::to_string(n.idx) + " reported with status " + std::to_string(n.status));
                    }
                    cmp_sets(c, m, j, e, ("struct-walk(from node " + std::to_string(i) + ")").c_str());
                }
                break;
            }
            case A_RC_IDX:
            case A_RC_IDX_IN:
            {
                auto v = g.nb_indices_rc(i / cols, i % cols, acc == A_RC_IDX_IN);
                std::vector<Ent> e;
                for (auto& rc : v)
                {
                    if (rc.first >= m.spec.rows || rc.second >= cols)
                        c.fail("neighbors-rc", "node " + std::to_string(i) + ": (row,col) out of range");
                    size_t j = rc.first * cols + rc.second;
                    e.push_back({ j, model_dist(m, i, j) });
                    order.push_back(j);
                }
                cmp_sets(c, m, i, e, "rc-indices");
                break;
            }
            default:
            {
                auto v = g.nbs_rc(i / cols, i % cols, acc == A_RC_NB_IN);
                std::vector<Ent> e;
                for (auto& n : v)
                {
                    if (n.flat >= m.n)
                        c.fail("neighbors-rc-struct", "index out of range");
                    if (n.row != n.flat / cols || n.col != n.flat % cols)
                        c.fail("neighbors-rc-struct", "node " + std::to_string(i) + ": (row,col) does not unravel the flat index " + std::to_string(n.flat));
                    if (n.status != g.status(n.flat))
                        c.fail("neighbors-status", "rc struct: status mismatch at neighbour " + std::to_string(n.flat));
                    e.push_back({ n.flat, n.dist });
                    order.push_back(n.flat);
                }
                cmp_sets(c, m, i, e, "rc-struct");
            }
        }
        return order;
    }
}

// Complete enumeration of small grids: every raster shape 2..5 x 2..5, three connectivities, both
// cache policies, four loop configurations (none / horizontal / vertical / both; other borders
// fixed value), anisotropic spacing; every profile size 2..6, looped or not, both cache policies.
// Each enumerated grid gets the full sweep of all nodes and accessors.
static size_t enum_count()
{
    return 16 * 3 * 2 * 4 + 5 * 2 * 2;
}
static std::vector<uint8_t> enum_case(size_t k)
{
    if (k < 384)
        return { 0xEE, 0, static_cast<uint8_t>(k % 3), static_cast<uint8_t>((k / 3) % 2), static_cast<uint8_t>((k / 6) % 4), static_cast<uint8_t>(2 + (k / 24) % 4), static_cast<uint8_t>(2 + (k / 96) % 4) };
    k -= 384;
    return { 0xEE, 1, 0, static_cast<uint8_t>(k % 2), static_cast<uint8_t>((k / 2) % 2), 1, static_cast<uint8_t>(2 + (k / 4) % 5) };
}

static va::GridSpec enumerated_spec(vg::Src& s)
{
    va::GridSpec sp;
    bool profile = s.u8() % 2 == 1;
    sp.kind = profile ? va::K_PROFILE : va::K_RASTER;
    sp.connect = static_cast<int>(s.u8() % 3);
    sp.cache = s.u8() % 2 == 0;
    size_t loop = s.u8() % 4;
    sp.rows = profile ? 1 : 2 + s.u8() % 4;
    if (profile)
        s.u8();
    sp.cols = 2 + s.u8() % 5;
    sp.dy = 1.5;
    sp.dx = 0.25;
    bool hl = loop & 1, vl = loop & 2;
    sp.border[0] = sp.border[1] = hl ? va::ST_LOOPED : va::ST_FIXED_VALUE;
    sp.border[2] = sp.border[3] = (vl && !profile) ? va::ST_LOOPED : va::ST_FIXED_VALUE;
    return sp;
}

static void check_case(vg::Src& s, vh::Ctx& c)
{
    vg::GridOpts o;
    o.mesh = false;
    o.valid_only = true;
    o.max_side = c.arg > 0 ? static_cast<size_t>(c.arg) : 10;
    o.profile_max = 30;
    // ~3 % of the grids get a side of up to 160 (thorough: 260) nodes: index arithmetic that is
    // exact on small grids need not be on large ones (seeded change C07-E: 49 columns and more)
    o.large_side = o.max_side > 12 ? 260 : 160;
    va::GridSpec sp;
    if (s.n > 0 && s.d[0] == 0xEE)
    {
        s.u8();
        sp = enumerated_spec(s);
        c.label("enumerated-small-grid");
    }
    else
        sp = vg::gen_grid(s, o);
    vm::ModelGrid m = vm::build_model(sp);
    va::GridSpec sp2 = sp;
    sp2.cache = !sp.cache;
    auto g = va::make_grid(sp);
    auto g2 = va::make_grid(sp2);
    bool raster = sp.kind == va::K_RASTER;

    // history of queries in generated order, with repeats
    size_t nq = s.range(1, 64);
    std::string hist;
    for (size_t q = 0; q < nq; ++q)
    {
        size_t i = s.range(0, m.n - 1);
        int acc = static_cast<int>(s.range(0, raster ? A_N - 1 : A_NB_WALK));
        bool second = s.chance(60);  // ask the twin grid (other cache policy) instead
        if (hist.size() < 200)
            hist += std::to_string(i) + ":" + std::to_string(acc) + (second ? "' " : " ");
        query(c, second ? *g2 : *g, m, i, acc);
    }
    c.desc = vm::describe(sp) + " queries(node:accessor)=" + hist;
    c.announce();
    c.canon = vm::describe(sp);

    // full sweep: every node, every accessor; order consistency; cache vs no-cache; symmetry
    // (grids of more than 1500 nodes: every node within two steps of a border, where all the
    // special cases live, plus ~400 interior nodes - a full sweep of 160 000 nodes under the
    // sanitizers takes longer than the per-case stopwatch allows)
    std::vector<uint8_t> swept(m.n, 1);
    if (m.n > 1500)
    {
        size_t rows = raster ? sp.rows : 1, cols = sp.cols, step = std::max<size_t>(1, m.n / 400);
        for (size_t i = 0; i < m.n; ++i)
        {
            size_t r = i / cols, cc = i % cols;
            bool near_border = cc < 2 || cc + 2 >= cols || (raster && (r < 2 || r + 2 >= rows));
            swept[i] = near_border || i % step == 0;
        }
        c.label("large-grid(sampled sweep)");
    }
    std::vector<std::vector<size_t>> all(m.n);
    for (size_t i = 0; i < m.n; ++i)
    {
        if (!swept[i])
            continue;
        std::vector<size_t> ref;
        for (int acc = 0; acc <= (raster ? A_N - 1 : A_NB_WALK); ++acc)
        {
            auto o1 = query(c, *g, m, i, acc);
            auto o2 = query(c, *g2, m, i, acc);
            if (acc == A_COUNT)
                continue;
            if (o1 != o2)
                c.fail("cache-vs-nocache", "node " + std::to_string(i) + " accessor " + std::to_string(acc) + ": answers differ between cache policies");
            if (ref.empty() && acc == A_IDX)
                ref = o1;
            else if (o1 != ref)
                c.fail("accessor-order", "node " + std::to_string(i) + ": accessor " + std::to_string(acc) + " lists neighbours in another order than neighbors_indices");
        }
        all[i] = ref;
        // distances in the order of the indices accessor
        auto d = g->nb_distances(i);
        auto nb = g->nbs(i);
        for (size_t k = 0; k < ref.size(); ++k)
        {
            if (!close4(model_dist(m, i, ref[k]), d[k]))
                c.fail("distance-order", "node " + std::to_string(i) + ": distances[" + std::to_string(k) + "] does not belong to neighbour " + std::to_string(ref[k]));
            if (!vg::biteq(nb[k].dist, d[k]))
                c.fail("distance-order", "struct accessor and distances accessor disagree at node " + std::to_string(i));
        }
    }
    for (size_t i = 0; i < m.n; ++i)
        for (size_t j : all[i])
        {
            if (!swept[j])
                continue;
            auto cnt_ij = std::count(all[i].begin(), all[i].end(), j);
            auto cnt_ji = std::count(all[j].begin(), all[j].end(), i);
            if (cnt_ij != cnt_ji)
                c.fail("symmetry", std::to_string(j) + " appears " + std::to_string(cnt_ij) + "x among neighbours of " + std::to_string(i) + " but " + std::to_string(i) + " appears " + std::to_string(cnt_ji) + "x among neighbours of " + std::to_string(j));
        }
    // areas and spacing/length accessors (geometry the distances are derived from)
    {
        double dy = sp.dy, dx = sp.dx;
        if (sp.from_length)
        {
            if (raster)
                dy = (static_cast<double>(sp.rows - 1) * sp.dy) / (static_cast<double>(sp.rows) - 1);
            dx = (static_cast<double>(sp.cols - 1) * sp.dx) / (static_cast<double>(sp.cols) - 1);
        }
        auto spc = g->spacing();
        auto len = g->length();
        if (raster)
        {
            c.expect(spc.size() == 2 && close4(spc[0], dy) && close4(spc[1], dx), "spacing", "spacing() = " + vg::describe_field(spc, 0));
            c.expect(len.size() == 2 && close4(len[0], static_cast<double>(sp.rows - 1) * dy) && close4(len[1], static_cast<double>(sp.cols - 1) * dx), "length", "length() = " + vg::describe_field(len, 0));
        }
        else
        {
            c.expect(spc.size() == 1 && close4(spc[0], dx), "spacing", "spacing() = " + vg::describe_field(spc, 0));
            c.expect(len.size() == 1 && close4(len[0], static_cast<double>(sp.cols - 1) * dx), "length", "length() = " + vg::describe_field(len, 0));
        }
        double cell = raster ? dy * dx : dx;
        auto areas = g->areas();
        c.expect(areas.size() == m.n, "areas-size", "");
        for (size_t i = 0; i < m.n; ++i)
            if (!close4(areas[i], cell) || !close4(g->area(i), cell))
                c.fail("cell-area", "node " + std::to_string(i) + ": area " + vg::fmt(areas[i]) + " expected " + vg::fmt(cell));
        auto shp = g->shape();
        c.expect(g->size() == m.n && (raster ? (shp.size() == 2 && shp[0] == sp.rows && shp[1] == sp.cols) : (shp.size() == 1 && shp[0] == sp.cols)), "shape", "shape()/size()");
    }
    bool two = (raster && (sp.rows == 2 || sp.cols == 2)) || (!raster && sp.cols == 2);
    bool aniso_diag = raster && sp.dy != sp.dx && sp.connect != va::C_ROOK;
    c.nontrivial = m.hloop || m.vloop || two || aniso_diag;
    c.label(raster ? (sp.connect == va::C_ROOK ? "raster-rook" : sp.connect == va::C_QUEEN ? "raster-queen" : "raster-bishop") : "profile");
    c.label(sp.cache ? "primary=cache" : "primary=nocache");
    if (m.hloop || m.vloop)
        c.label("looped");
    if (two)
        c.label("axis-of-2");
    if (two && (m.hloop || m.vloop))
        c.label("axis-of-2+looped");
    if (aniso_diag)
        c.label("anisotropic-diagonal");
}
