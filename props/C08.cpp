// C08 -- no public operation reads or writes outside its buffers.
//
// One "API walk" per case over inputs inside the documented domain; the oracle is the
// instrumentation: AddressSanitizer, UndefinedBehaviorSanitizer (non-recovering), libstdc++
// assertions and the library's own assert()s.  Also built as a libFuzzer target.
#define PROPERTY_ID "C08"
#include "splcase.hpp"

using namespace vf;

static void check_case(vg::Src& s, vh::Ctx& c)
{
    FlowOpts o;
    o.grid.max_side = c.arg > 0 ? static_cast<size_t>(c.arg) : 9;
    o.grid.large_side = c.arg >= 16 ? 72 : 40;  // ~3% large grids
    o.grid.mesh_max_side = 5;
    o.grid.profile_max = 30;
    o.every_component = !s.chance(64);
    FlowCase fc = gen_flow_case(s, o);
    ProgInfo pi;
    auto ops = s.chance(128) ? gen_valid_program(s, true, &pi) : gen_resolver_program(s, pi, true);
    c.desc = fc.describe() + " ops=" + vg::describe(ops);
    c.announce();
    label_case(c, fc);
    c.label("prog=" + label_prog(ops));
    size_t n = fc.m.n;
    unsigned groups = 0;
    bool resolver_or_eroder = false;

    // 1. grid: iteration (all filters, both directions) and every neighbour accessor
    auto grid = va::make_grid(fc.sp);
    for (int f = -1; f <= 3; ++f)
    {
        grid->iter(f, false);
        grid->iter(f, true);
    }
    size_t nq = s.range(1, 24);
    for (size_t q = 0; q < nq; ++q)
    {
        size_t i = s.range(0, n - 1);
        grid->nb_count(i);
        grid->nb_indices(i);
        grid->nb_indices_inplace(i);
        grid->nb_distances(i);
        grid->nbs(i);
        grid->nbs_inplace(i);
        if (fc.sp.kind == va::K_RASTER)
        {
            grid->nb_indices_rc(i / fc.sp.cols, i % fc.sp.cols, q & 1);
            grid->nbs_rc(i / fc.sp.cols, i % fc.sp.cols, q & 2);
        }
        grid->area(i);
    }
    grid->areas();
    grid->status_array();
    ++groups;

    // 2. graph: construction, settings, updates
    auto graph = va::make_graph(*grid, ops);
    apply_settings(*graph, fc);
    size_t updates = s.range(1, 3);
    std::vector<double> last;
    for (size_t u = 0; u < updates; ++u)
    {
        if (u > 0)
        {
            if (s.chance(80))
            {
                auto mk = vg::gen_mask(s, fc.m);
                if (mk.empty())
                    mk.assign(n, 0);
                std::vector<size_t> nb;
                for (auto b : fc.bl)
                    if (!mk[b])
                        nb.push_back(b);
                if (nb.empty())
                    for (size_t i = 0; i < n; ++i)
                        if (!mk[i])
                        {
                            nb.push_back(i);
                            break;
                        }
                if (nb.empty())
                {
                    mk[0] = 0;
                    nb.push_back(0);
                }
                fc.mask = mk;
                fc.bl = nb;
                graph->set_mask(mk);
                graph->set_base_levels(nb);
            }
            else if (s.chance(80))
            {
                auto nbl = vg::gen_base_levels(s, fc.m, fc.mask, false);
                fc.bl = nbl;
                graph->set_base_levels(nbl);
            }
        }
        auto z = u == 0 ? fc.z : vg::gen_field(s, fc.m);
        auto r = graph->update_routes(z);
        last = r.out;
        graph->state();
    }
    ++groups;
    for (auto& op : ops)
        if (op.kind == va::OP_PFLOOD || op.kind == va::OP_MST)
            resolver_or_eroder = true;

    // 3. accumulate (4 overloads)
    std::vector<double> src = vg::gen_field(s, fc.m);
    graph->accumulate(0, src, 0, 0);
    graph->accumulate(1, src, 0, 1.5);
    graph->accumulate(2, {}, 2.0, 0);
    graph->accumulate(3, {}, 2.0, -1);
    ++groups;

    // 4. basins / pits (single-direction state)
    if (!pi.final_multi)
    {
        graph->basins();
        graph->outlets();
        graph->pits();
        ++groups;
    }

    // 5. kernels, sequential and parallel
    graph->apply_kernel(va::KERNEL_ANY, 1, 0, 0, src);
    graph->apply_kernel(va::KERNEL_BREADTH_UPSTREAM, 1, 0, 0, src);
    graph->apply_kernel(va::KERNEL_DEPTH_UPSTREAM, 1, 0, 0, src);
    if (s.chance(40))
    {
        int nt = static_cast<int>(s.range(2, 4));
        graph->apply_kernel(va::KERNEL_BREADTH_UPSTREAM, nt, static_cast<int>(s.range(0, 8)), static_cast<int>(s.range(0, 8)), src);
        graph->apply_kernel(va::KERNEL_ANY, nt, static_cast<int>(s.range(0, 8)), 0, src);
        c.label("parallel-kernel");
    }
    ++groups;

    // 6. snapshots' accessors
    bool any_snap = false;
    for (auto& key : graph->graph_snapshot_keys())
    {
        va::IGraph& sg = graph->graph_snapshot(key);
        sg.state();
        sg.accumulate(0, src, 0, 0);
        if (sg.impl_single_flow())
        {
            sg.basins();
            sg.pits();
        }
        sg.apply_kernel(va::KERNEL_BREADTH_UPSTREAM, 1, 0, 0, src);
        sg.apply_kernel(va::KERNEL_DEPTH_UPSTREAM, 1, 0, 0, src);
        any_snap = true;
    }
    for (auto& key : graph->elevation_snapshot_keys())
    {
        graph->elevation_snapshot(key);
        any_snap = true;
    }
    if (any_snap)
        ++groups;

    // 7. basin graph on single-direction graphs
    if (!pi.final_multi && s.chance(128))
    {
        auto bg = graph->make_basin_graph(s.coin() ? va::MST_BORUVKA : va::MST_KRUSKAL);
        bg->update_routes(last);
        bg->edges();
        bg->tree();
        if (s.coin())
        {
            graph->update_routes(vg::gen_field(s, fc.m));
            bg->update_routes(fc.z);
        }
        ++groups;
        c.label("basin-graph");
    }

    // 8. eroders (ordinary magnitudes: the Newton solver's domain, see C12/C13)
    if (s.chance(160))
    {
        std::vector<double> ze = vg::gen_field(s, fc.m, nullptr, true);
        auto r = graph->update_routes(ze);
        auto area = graph->accumulate(2, {}, 1.0, 0);
        for (auto& a : area)
            a = std::fabs(a);
        static const double ns[] = { 1.0, 0.5, 1.5, 2.0 };
        double nn = pi.final_multi ? 1.0 : ns[s.u8() % 4];
        bool karr = s.coin();
        std::vector<double> kk(n, 1e-3);
        auto spl = graph->make_spl(karr, 1e-3 * (1 + s.u8() % 50), kk, s.coin() ? 0.5 : 1.0, nn, 1e-4, s.coin());
        spl->erode(r.out, area, std::pow(10.0, static_cast<int>(s.range(0, 6)) - 1));
        spl->n_corr();
        spl->k_coef();
        resolver_or_eroder = true;
        ++groups;
        c.label("spl");
    }
    if (fc.sp.kind == va::K_RASTER && fc.sp.rows >= 3 && fc.sp.cols >= 3 && s.chance(128))
    {
        bool karr = s.coin();
        std::vector<double> kk(n);
        for (auto& k : kk)
            k = 0.1 + static_cast<double>(s.u8()) / 64.0;
        auto de = va::make_diffusion(*grid, karr, 0.5, kk);
        std::vector<double> zd = vg::gen_field(s, fc.m, nullptr, true);
        de->erode(zd, std::pow(10.0, static_cast<int>(s.range(0, 6)) - 2));
        de->k_coef();
        resolver_or_eroder = true;
        ++groups;
        c.label("diffusion");
    }
    c.label("groups=" + std::to_string(groups));
    c.nontrivial = groups >= 4 && resolver_or_eroder;
}
