// C04 -- single-direction routing follows steepest descent.
#define PROPERTY_ID "C04"
#include "flowcase.hpp"

using namespace vf;

static bool check_single_routing(vh::Ctx& c, const FlowCase& fc, const GraphState& st, const std::string& tag);

static void check_case(vg::Src& s, vh::Ctx& c)
{
    FlowOpts o;
    o.grid.max_side = c.arg > 0 ? static_cast<size_t>(c.arg) : 10;
    o.grid.large_side = c.arg >= 16 ? 72 : 40;  // ~3% large grids
    FlowCase fc = gen_flow_case(s, o);
    int threads = thread_choice(s, true);
    std::vector<OpSpec> ops = { vg::op_single(threads, threads == 0 && s.coin()) };
    bool mixed = s.chance(40);
    if (mixed)
    {
        // the single router as the last operator of a mixed sequence (receiver tables as wide as
        // the neighbourhood): the statement is about the state after the single router
        ops.insert(ops.begin(), vg::op_multi(vg::slope_exp_value(s)));
        if (s.coin())
            ops.insert(ops.begin() + 1, vg::op_snap("m", true, false));
    }
    size_t rounds = s.weighted({ 150, 70, 36 }) + 1;  // 1-3 updates on the same graph
    c.desc = fc.describe() + " ops=" + vg::describe(ops);
    c.announce();
    label_case(c, fc);
    c.label("threads=" + std::to_string(threads));
    c.label("rounds=" + std::to_string(rounds));
    Built b = build(fc, ops, c);
    bool nt = false;
    for (size_t round = 0; round < rounds; ++round)
    {
        std::string tag = "update#" + std::to_string(round + 1) + ": ";
        if (round > 0)
        {
            std::string what = mutate_settings(s, fc, *b.graph, false);
            if (s.chance(200))
                fc.z = vg::gen_field(s, fc.m);
            c.desc += " |" + what + " update(z=" + vg::describe_field(fc.z, 0) + ")";
            if (c.verbose)
                std::cout << "STEP" << what << " update(z=" << vg::describe_field(fc.z, 0) << ")" << std::endl;
        }
        auto res = b.graph->update_routes(fc.z);
        c.expect(res.same_object, "returned-object", "a router-only graph must return the caller's array");
        GraphState st = b.graph->state();
        if (check_single_routing(c, fc, st, tag))
            nt = true;
    }
    c.nontrivial = nt;
}

static bool check_single_routing(vh::Ctx& c, const FlowCase& fc, const GraphState& st, const std::string& tag)
{
    size_t n = fc.m.n;
    check_wellformed(c, st, n);
    bool interesting = false;
    for (size_t i = 0; i < n; ++i)
    {
        std::string at = tag + "node " + std::to_string(i) + " (z=" + vg::fmt(fc.z[i]) + ")";
        c.expect(st.rec_count[i] == 1, "count", at + ": receivers_count " + std::to_string(st.rec_count[i]));
        size_t r = R(st, i, 0);
        c.expect(W(st, i, 0) == 1.0, "weight", at + ": weight " + vg::fmt(W(st, i, 0)));
        if (fc.masked(i) || fc.isbase[i])
        {
            c.expect(r == i, fc.masked(i) ? "masked-drains" : "base-level-drains", at + " has receiver " + std::to_string(r));
            continue;
        }
        // strictly lower unmasked model neighbours and their exact slopes
        long double best = -1;
        size_t nlower = 0;
        std::set<long double> slopes;
        for (auto& nb : fc.m.nb[i])
        {
            if (fc.masked(nb.idx) || !(fc.z[nb.idx] < fc.z[i]))
                continue;
            long double sl = (static_cast<long double>(fc.z[i]) - static_cast<long double>(fc.z[nb.idx])) / static_cast<long double>(nb.dist);
            best = std::max(best, sl);
            slopes.insert(sl);
            ++nlower;
        }
        if (slopes.size() >= 2)
            interesting = true;
        if (nlower == 0)
        {
            c.expect(r == i, "flows-uphill-or-flat", at + " has no strictly lower unmasked neighbour but receiver " + std::to_string(r) + " (z=" + vg::fmt(fc.z[r < n ? r : i]) + ")");
            continue;
        }
        if (r == i)
            c.fail("pit-with-lower-neighbour", at + " is its own receiver although an unmasked neighbour is strictly lower (steepest slope " + vg::fmt(static_cast<double>(best)) + ")");
        // receiver must be an unmasked, strictly lower model neighbour of maximal slope
        bool found = false, dist_ok = false;
        long double got = -1;
        for (auto& nb : fc.m.nb[i])
            if (nb.idx == r)
            {
                found = true;
                long long d = vg::ulpdist(nb.dist, D(st, i, 0));
                if (d >= -4 && d <= 4)
                {
                    dist_ok = true;
                    got = (static_cast<long double>(fc.z[i]) - static_cast<long double>(fc.z[r])) / static_cast<long double>(nb.dist);
                }
            }
        c.expect(found, "receiver-not-neighbour", at + ": receiver " + std::to_string(r) + " is not a neighbour");
        c.expect(!fc.masked(r), "receiver-masked", at + ": receiver " + std::to_string(r) + " is masked");
        c.expect(fc.z[r] < fc.z[i], "receiver-not-lower", at + ": receiver " + std::to_string(r) + " (z=" + vg::fmt(fc.z[r]) + ") is not strictly lower");
        c.expect(dist_ok, "receiver-distance", at + ": stored distance " + vg::fmt(D(st, i, 0)) + " is not the grid distance to receiver " + std::to_string(r));
        if (!(got >= best * (1 - 1e-14L)))
            c.fail("not-steepest", at + ": receiver " + std::to_string(r) + " has slope " + vg::fmt(static_cast<double>(got)) + " but the steepest descent is " + vg::fmt(static_cast<double>(best)));
    }
    return interesting;
}
