// C20 -- operator sequences are validated and their declared effects hold.
#define PROPERTY_ID "C20"
#define VH_HAS_ENUM
#include "flowcase.hpp"

using namespace vf;

namespace
{
    // the 9 operator kinds of the enumerated space
    OpSpec kind_op(size_t k, size_t pos)
    {
        // names repeat with period 3: two snapshots of one kind may carry the same name (the
        // statement: "snapshot names are listed as given"; seeded change C20-H lists them once)
        std::string nm = "s" + std::to_string(pos % 3);
        switch (k)
        {
            case 0:
                return vg::op_single(0, true);
            case 1:
                return vg::op_single(2);
            case 2:
                return vg::op_multi(1.1);
            case 3:
                return vg::op_pflood();
            case 4:
                return vg::op_mst(va::MST_KRUSKAL, va::ROUTE_CARVE);
            case 5:
                return vg::op_mst(va::MST_BORUVKA, va::ROUTE_BASIC);
            case 6:
                return vg::op_snap(nm, true, false);
            case 7:
                return vg::op_snap(nm, false, true);
            default:
                return vg::op_snap(nm, true, true);
        }
    }
    const size_t NK = 9;
    // maximal program length of the enumerated space: 4 (the statement's bound), or the value of
    // the environment variable VERIF_C20_MAXL (the thorough tier uses 5)
    size_t maxl()
    {
        const char* e = getenv("VERIF_C20_MAXL");
        size_t v = e ? static_cast<size_t>(atoi(e)) : 4;
        return v >= 1 && v <= 6 ? v : 4;
    }

    va::GridSpec fixed_grid(size_t t)
    {
        va::GridSpec sp;
        if (t == 0)
        {
            sp.kind = va::K_PROFILE;
            sp.cols = 5;
            sp.dx = 1.5;
            sp.border[0] = sp.border[1] = va::ST_FIXED_VALUE;
        }
        else if (t == 1)
        {
            sp.kind = va::K_RASTER;
            sp.connect = va::C_QUEEN;
            sp.rows = 3;
            sp.cols = 4;
            sp.dy = 1;
            sp.dx = 2;
        }
        else
        {
            sp.kind = va::K_TRIMESH;
            sp.px = { 0, 1, 2, 0, 1, 2, 0, 1, 2 };
            sp.py = { 0, 0, 0, 1, 1, 1, 2, 2, 2 };
            sp.tris = { { 0, 1, 3 }, { 1, 4, 3 }, { 1, 2, 4 }, { 2, 5, 4 }, { 3, 4, 6 }, { 4, 7, 6 }, { 4, 5, 7 }, { 5, 8, 7 } };
            sp.cols = 9;
        }
        return sp;
    }
}

static size_t enum_count()
{
    size_t per = 0, p = 1;
    for (size_t L = 0; L <= maxl(); ++L)
    {
        per += p;
        p *= NK;
    }
    return per * 3;
}
static std::vector<uint8_t> enum_case(size_t k)
{
    size_t per = enum_count() / 3;
    size_t t = k / per, r = k % per;
    size_t L = 0, p = 1;
    while (r >= p)
    {
        r -= p;
        p *= NK;
        ++L;
    }
    std::vector<uint8_t> b = { 0, static_cast<uint8_t>(t), static_cast<uint8_t>(L) };
    for (size_t i = 0; i < L; ++i)
    {
        b.push_back(static_cast<uint8_t>(r % NK));
        r /= NK;
    }
    return b;
}

static void check_case(vg::Src& s, vh::Ctx& c)
{
    bool generated_grid = s.u8() >= 128;
    va::GridSpec sp;
    size_t t = s.u8() % 3;
    size_t L;
    if (!generated_grid)
    {
        sp = fixed_grid(t);
        L = s.u8() % 9;
    }
    else
    {
        vg::GridOpts go;
        go.max_side = 5;
        go.mesh_max_side = 3;
        sp = vg::gen_grid(s, go);
        L = s.range(0, 8);
    }
    std::vector<OpSpec> ops;
    for (size_t i = 0; i < L; ++i)
        ops.push_back(kind_op(s.u8() % NK, i));
    vg::ProgModel pm = vg::model_program(ops);
    c.desc = vm::describe(sp) + " ops=" + vg::describe(ops) + (pm.accepted ? " => model: accepted" : " => model: rejected (" + pm.reject_reason + ")");
    c.canon = std::to_string(sp.type_index()) + vg::describe(ops);
    c.announce();
    c.label("len=" + std::to_string(L));
    c.label(pm.accepted ? "accepted" : "rejected:" + pm.reject_reason);
    c.nontrivial = true;  // every distinct program is a case of the quantifier

    vm::ModelGrid m = vm::build_model(sp);
    auto grid = va::make_grid(sp);
    std::unique_ptr<va::IGraph> g;
    bool threw = false;
    std::string what;
    try
    {
        g = va::make_graph(*grid, ops);
    }
    catch (const std::exception& e)  // "fails with an error": any error type counts
    {
        threw = true;
        what = e.what();
    }
    c.expect(threw == !pm.accepted, "accept-reject", std::string("construction ") + (threw ? "failed (" + what + ")" : "succeeded") + " but the rules say " + (pm.accepted ? "accept" : "reject: " + pm.reject_reason));
    if (threw)
        return;
    c.expect(g->single_flow() == pm.out_single, "flow-direction", std::string("single_flow() = ") + (g->single_flow() ? "true" : "false"));
    auto names = g->op_names();
    c.expect(names.size() == ops.size(), "operators-size", std::to_string(names.size()));
    // (the operators' own name strings are not part of the statement)
    c.expect(g->graph_snapshot_keys() == pm.graph_keys, "graph-snapshot-keys", "keys differ");
    c.expect(g->elevation_snapshot_keys() == pm.elev_keys, "elevation-snapshot-keys", "keys differ");
    GraphState st0 = g->state();
    size_t want_cols = pm.all_single ? 1 : static_cast<size_t>(grid->n_neighbors_max());
    c.expect(st0.rcols == want_cols, "receiver-table-width", "receivers has " + std::to_string(st0.rcols) + " columns, expected " + std::to_string(want_cols));
    // (the implementation's own single_flow() flag is not part of the statement: only the table
    // width is)
    for (size_t k = 0; k < pm.graph_keys.size(); ++k)
    {
        // a name given to two graph snapshots designates one stored graph (the later save
        // replaces the earlier): which of the two widths it has is not part of the statement
        if (std::count(pm.graph_keys.begin(), pm.graph_keys.end(), pm.graph_keys[k]) > 1)
            continue;
        va::IGraph& sg = g->graph_snapshot(pm.graph_keys[k]);
        c.expect(sg.state().rcols == (pm.snap_single[k] ? 1u : static_cast<size_t>(grid->n_neighbors_max())), "snapshot-table-width", pm.graph_keys[k]);
    }
    // one update on a small field: returned reference is the caller's array iff no operator
    // edits elevation
    std::vector<double> z(m.n);
    for (size_t i = 0; i < m.n; ++i)
        z[i] = static_cast<double>((i * 7 + 3) % 5) + 0.25 * static_cast<double>(i % 3);
    if (g->base_levels().empty())
        g->set_base_levels({ 0 });
    auto res = g->update_routes(z);
    c.expect(res.same_object == !pm.elevation_updated, "returned-array", std::string("update_routes returned ") + (res.same_object ? "the caller's array" : "an internal copy") + " but " + (pm.elevation_updated ? "an operator edits elevation" : "no operator edits elevation"));
    for (size_t i = 0; i < m.n; ++i)
        c.expect(vg::biteq(res.input_after[i], z[i]), "input-modified", "node " + std::to_string(i));
    for (auto& key : pm.elev_keys)
        c.expect(g->elevation_snapshot(key).size() == m.n, "elevation-snapshot-size", key);
}
