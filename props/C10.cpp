// C10 -- multi-threaded routing and kernels equal the sequential results.
//
// Built twice: address+undefined (bitwise differential against the sequential run,
// repeated under generated schedule perturbations) and thread sanitizer (data races).
#define PROPERTY_ID "C10"
#include "steer.hpp"
#include "flowcase.hpp"

#if defined(__has_feature)
#if __has_feature(thread_sanitizer)
#define C10_TSAN 1
#endif
#endif
#ifndef C10_TSAN
#define C10_TSAN 0
#endif

using namespace vf;

namespace
{
    struct Step
    {
        int kind;  // 0 update_routes(field), 1 kernel
        size_t field;
        int kernel, n_threads, min_block, min_level;
    };

    std::string cmp_states(const GraphState& a, const GraphState& b)
    {
        auto diff = [](const std::vector<size_t>& x, const std::vector<size_t>& y) -> long
        {
            if (x.size() != y.size())
                return -2;
            for (size_t i = 0; i < x.size(); ++i)
                if (x[i] != y[i])
                    return static_cast<long>(i);
            return -1;
        };
        long d;
        if ((d = diff(a.rec_count, b.rec_count)) != -1)
            return "receivers_count differs at " + std::to_string(d);
        for (size_t i = 0; i < a.n; ++i)
            for (size_t k = 0; k < a.rec_count[i]; ++k)
            {
                if (R(a, i, k) != R(b, i, k))
                    return "receiver of node " + std::to_string(i) + ": parallel " + std::to_string(R(a, i, k)) + " sequential " + std::to_string(R(b, i, k));
                if (!vg::biteq(D(a, i, k), D(b, i, k)))
                    return "receiver distance of node " + std::to_string(i) + " differs";
                if (!vg::biteq(W(a, i, k), W(b, i, k)))
                    return "receiver weight of node " + std::to_string(i) + " differs";
            }
        // (the donor table is not part of the statement: the sequential router does not list
        // base-level / masked nodes as their own donors while the parallel one does, and every
        // consumer skips self entries; C06 checks the donor table against the receivers)
        if ((d = diff(a.dfs, b.dfs)) != -1)
            return "dfs_indices differ at " + std::to_string(d);
        if ((d = diff(a.bfs, b.bfs)) != -1)
            return "bfs_indices differ at " + std::to_string(d);
        if ((d = diff(a.levels, b.levels)) != -1)
            return "bfs_levels differ at " + std::to_string(d);
        return "";
    }
}

static void check_case(vg::Src& s, vh::Ctx& c)
{
    vs::install();
    vs::g_tr.steering = false;
    vs::g_tr.reset();
    FlowOpts o;
    o.grid.max_side = c.arg > 0 ? static_cast<size_t>(c.arg) : 12;
    o.grid.large_side = c.arg >= 16 ? 72 : 40;  // ~3% large grids
    o.grid.min_side = 2;
    o.grid.mesh_max_side = 7;
    o.grid.profile_max = 60;
    o.grid.only_queen = false;
    o.every_component = true;
    FlowCase fc = gen_flow_case(s, o);
    size_t n = fc.m.n;
    static const int tcounts[] = { 2, 3, 4, 5, 7, 8, 16 };
    int threads = tcounts[s.weighted({ 70, 40, 50, 20, 20, 30, 26 })];
    size_t shape = s.weighted({ 130, 46, 50, 30 });
    std::vector<OpSpec> par, seq;
    int mm = s.coin() ? va::MST_BORUVKA : va::MST_KRUSKAL, rr = s.coin() ? va::ROUTE_BASIC : va::ROUTE_CARVE;
    if (shape == 0)
    {
        par = { vg::op_single(threads) };
        seq = { vg::op_single(0) };
    }
    else if (shape == 1)
    {
        par = { vg::op_pflood(), vg::op_single(threads) };
        seq = { vg::op_pflood(), vg::op_single(0) };
    }
    else if (shape == 2)
    {
        par = { vg::op_single(threads), vg::op_mst(mm, rr) };
        seq = { vg::op_single(0), vg::op_mst(mm, rr) };
    }
    else
    {
        // multiple-direction graph (sequential router): only the kernels run in parallel
        double p = vg::slope_exp_value(s);
        par = seq = { vg::op_pflood(), vg::op_multi(p) };
    }
    // history
    size_t nsteps = s.range(shape == 3 ? 2 : 1, 5);
    std::vector<std::vector<double>> fields = { fc.z };
    std::vector<Step> steps;
    steps.push_back({ 0, 0, 0, 0, 0, 0 });
    for (size_t i = 1; i < nsteps; ++i)
    {
        Step st{};
        st.kind = (s.chance(150) || (shape == 3 && i == 1)) ? 1 : 0;
        if (st.kind == 0)
        {
            fields.push_back(vg::gen_field(s, fc.m));
            st.field = fields.size() - 1;
        }
        else
        {
            st.kernel = s.chance(170) ? va::KERNEL_BREADTH_UPSTREAM : va::KERNEL_ANY;
            st.n_threads = tcounts[s.weighted({ 70, 40, 50, 20, 20, 30, 26 })];
            static const int mb[] = { 0, 1, 2, 4, 16, 64 };
            st.min_block = mb[s.weighted({ 120, 30, 30, 30, 26, 20 })];
            static const int ml[] = { 0, 1, 2, 3, 8, 1000 };
            st.min_level = ml[s.weighted({ 120, 30, 30, 30, 26, 20 })];
        }
        steps.push_back(st);
    }
    // perturbation plan (no unbounded holds; the thread-sanitizer build only yields)
    size_t nrules = s.weighted({ 100, 80, 50, 26 });
    for (size_t i = 0; i < nrules; ++i)
        vs::g_tr.rules.push_back(vs::gen_rule(s, !C10_TSAN));
    std::string plan;
    for (auto& r : vs::g_tr.rules)
        plan += vs::describe_rule(r);
    std::string hist;
    for (auto& st : steps)
        hist += st.kind == 0 ? " update(z" + std::to_string(st.field) + ")" : " kernel(" + std::string(st.kernel == va::KERNEL_ANY ? "any" : "breadth_upstream") + ",threads=" + std::to_string(st.n_threads) + ",min_block=" + std::to_string(st.min_block) + ",min_level=" + std::to_string(st.min_level) + ")";
    c.desc = fc.describe() + " ops=" + vg::describe(par) + " history:" + hist;
    for (size_t f = 1; f < fields.size(); ++f)
        c.desc += " z" + std::to_string(f) + "=" + vg::describe_field(fields[f], 0);
    if (!plan.empty())
        c.desc += " steering=" + plan;
    c.desc += C10_TSAN ? " [tsan]" : " [asan]";
    c.announce();
    label_case(c, fc);
    c.label("threads=" + std::to_string(threads));
    c.label("shape=" + std::to_string(shape));

    // sequential reference (fresh grid, sequential router, sequential kernels)
    Built sb = build(fc, seq, c);
    std::vector<GraphState> ref_states;
    std::vector<std::vector<double>> ref_out;
    {
        std::vector<double> last_elev;
        for (auto& st : steps)
        {
            if (st.kind == 0)
            {
                auto r = sb.graph->update_routes(fields[st.field]);
                last_elev = r.out;
                ref_states.push_back(sb.graph->state());
                ref_out.push_back(sb.graph->accumulate(2, {}, 1.0, 0));
            }
            else
            {
                ref_states.push_back(GraphState{});
                ref_out.push_back(sb.graph->apply_kernel(st.kernel, 1, 0, 0, last_elev));
            }
        }
    }
    size_t distinct_rec = 0;
    {
        std::set<size_t> ds;
        for (size_t i = 0; i < n; ++i)
            ds.insert(R(ref_states[0], i, 0));
        distinct_rec = ds.size();
    }
    // parallel runs, repeated under the perturbation plan
    int reps = C10_TSAN ? 1 : (c.arg >= 20 ? 6 : 3);
    for (int rep = 0; rep < reps; ++rep)
    {
        vs::g_tr.steering = !vs::g_tr.rules.empty() && rep > 0;  // first repetition unperturbed
        Built pb = build(fc, par, c);
        std::vector<double> last_elev;
        for (size_t k = 0; k < steps.size(); ++k)
        {
            auto& st = steps[k];
            std::string at = "repetition " + std::to_string(rep) + " step " + std::to_string(k) + (st.kind == 0 ? " update_routes" : " apply_kernel") + ": ";
            if (st.kind == 0)
            {
                auto r = pb.graph->update_routes(fields[st.field]);
                last_elev = r.out;
                GraphState ps = pb.graph->state();
                check_wellformed(c, ps, n);
                std::string d = cmp_states(ps, ref_states[k]);
                if (!d.empty())
                    c.fail("router-differs-from-sequential", at + d);
                auto acc = pb.graph->accumulate(2, {}, 1.0, 0);
                for (size_t i = 0; i < n; ++i)
                    if (!vg::biteq(acc[i], ref_out[k][i]))
                        c.fail("accumulate-differs-from-sequential", at + "node " + std::to_string(i));
            }
            else
            {
                auto out = pb.graph->apply_kernel(st.kernel, st.n_threads, st.min_block, st.min_level, last_elev);
                for (size_t i = 0; i < n; ++i)
                    if (!vg::biteq(out[i], ref_out[k][i]))
                        c.fail("kernel-differs-from-sequential", at + "node " + std::to_string(i) + ": parallel " + vg::fmt(out[i]) + " sequential " + vg::fmt(ref_out[k][i]));
            }
        }
    }
    vs::g_tr.steering = false;
    c.nontrivial = n >= 2 * static_cast<size_t>(threads) && distinct_rec >= 2;
    if (nsteps > 1)
        c.label("history>1");
}
