// C09 -- updating routes is a pure function of its current inputs.
#define PROPERTY_ID "C09"
#include "flowcase.hpp"

using namespace vf;

namespace
{
    struct Observed
    {
        std::vector<double> elev;
        GraphState st;
        std::vector<double> acc1, accs;
        std::vector<size_t> basins, outlets, pits;
        bool single;
    };

    Observed observe(va::IGraph& g, const va::UpdateResult& r, const std::vector<double>& src, bool single)
    {
        Observed o;
        o.elev = r.out;
        o.st = g.state();
        o.acc1 = g.accumulate(2, {}, 1.0, 0);
        o.accs = g.accumulate(0, src, 0, 0);
        o.single = single;
        if (single)
        {
            o.basins = g.basins();
            o.outlets = g.outlets();
            o.pits = g.pits();
            std::sort(o.outlets.begin(), o.outlets.end());  // sets
            std::sort(o.pits.begin(), o.pits.end());
        }
        return o;
    }

    std::string diff(const Observed& a, const Observed& b)
    {
        for (size_t i = 0; i < a.elev.size(); ++i)
            if (!vg::biteq(a.elev[i], b.elev[i]))
                return "returned elevation at node " + std::to_string(i) + ": " + vg::fmt(a.elev[i]) + " vs " + vg::fmt(b.elev[i]);
        std::string d = cmp_upto_counts(a.st, b.st, true);
        if (!d.empty())
            return d;
        for (size_t i = 0; i < a.acc1.size(); ++i)
            if (!vg::biteq(a.acc1[i], b.acc1[i]) || !vg::biteq(a.accs[i], b.accs[i]))
                return "accumulation at node " + std::to_string(i);
        if (a.basins != b.basins)
            return "basins()";
        if (a.outlets != b.outlets)
            return "outlets";
        if (a.pits != b.pits)
            return "pits()";
        return "";
    }
}

static void check_case(vg::Src& s, vh::Ctx& c)
{
    FlowOpts o;
    o.grid.max_side = c.arg > 0 ? static_cast<size_t>(c.arg) : 8;
    o.grid.mesh_max_side = 5;
    o.every_component = !s.chance(50);
    FlowCase fc = gen_flow_case(s, o);
    size_t n = fc.m.n;
    ProgInfo pi;
    // resolver programs over-sampled (ties and cached scratch state live there)
    std::vector<OpSpec> ops = s.chance(170) ? gen_resolver_program(s, pi, true) : gen_valid_program(s, false, &pi);
    for (auto& op : ops)
        if (op.kind == va::OP_SNAPSHOT)
            op.save_graph = op.save_graph;
    bool single_final = !pi.final_multi;
    std::vector<double> src = vg::gen_field(s, fc.m, nullptr, true);

    // current settings of the long-lived graph
    std::vector<uint8_t> mask = fc.mask;
    bool mask_set = !fc.mask.empty();
    std::vector<size_t> bl = fc.bl;
    bool bl_explicit = fc.bi.is_explicit;
    std::vector<OpSpec> cur_ops = ops;

    Built live;
    live.grid = va::make_grid(fc.sp);
    live.graph = va::make_graph(*live.grid, ops);
    apply_settings(*live.graph, fc);

    size_t nsteps = s.range(2, 8);
    std::string hist;
    std::vector<std::vector<double>> fields = { fc.z };
    size_t n_updates = 0, n_changes_between = 0, changes_since_update = 0;
    bool ties = false;
    {
        std::set<double> vals(fc.z.begin(), fc.z.end());
        ties = vals.size() < n;
    }
    c.desc = fc.describe() + " ops=" + vg::describe(ops) + " history:";
    for (size_t step = 0; step < nsteps; ++step)
    {
        size_t kind = step == 0 ? 0 : s.weighted({ 104, 30, 40, 40, 16, 16, 10 });
        if (step == nsteps - 1)
            kind = 0;
        switch (kind)
        {
            case 0:
            {
                // update_routes with a new or an earlier field
                size_t fk;
                if (fields.size() > 1 && s.chance(60))
                    fk = s.range(0, fields.size() - 1);
                else if (step == 0)
                    fk = 0;
                else
                {
                    fields.push_back(vg::gen_field(s, fc.m));
                    fk = fields.size() - 1;
                }
                const auto& z = fields[fk];
                c.desc += " update(z" + std::to_string(fk) + "=" + vg::describe_field(z, 0) + ")";
                c.announce();
                auto r = live.graph->update_routes(z);
                for (size_t i = 0; i < n; ++i)
                    if (!vg::biteq(r.input_after[i], z[i]))
                        c.fail("input-modified", "step " + std::to_string(step) + ": update_routes changed the caller's array at node " + std::to_string(i));
                Observed lo = observe(*live.graph, r, src, single_final);
                // fresh grid + graph with the settings now in force
                FlowCase cur = fc;
                cur.mask = mask_set ? mask : std::vector<uint8_t>();
                cur.bl = bl;
                cur.bi.is_explicit = bl_explicit;
                // the fresh graph lives on a fresh grid, or on the SAME grid object as the graph with
                // the history (several graphs may share a grid; it is destroyed before the next step
                // while the other graph goes on)
                Built fresh;
                bool shared_grid = s.chance(100);
                if (!shared_grid)
                    fresh.grid = va::make_grid(fc.sp);
                else
                    c.label("fresh-graph-on-shared-grid");
                fresh.graph = va::make_graph(shared_grid ? *live.grid : *fresh.grid, cur_ops);
                if (mask_set)
                    fresh.graph->set_mask(mask);
                if (bl_explicit)
                {
                    // same set, inserted in another (generated) order
                    std::vector<size_t> shuffled = bl;
                    for (size_t i = shuffled.size(); i > 1; --i)
                        std::swap(shuffled[i - 1], shuffled[s.u8() % i]);
                    fresh.graph->set_base_levels(shuffled);
                }
                auto fr = fresh.graph->update_routes(z);
                Observed fo = observe(*fresh.graph, fr, src, single_final);
                std::string d = diff(lo, fo);
                if (!d.empty())
                    c.fail("depends-on-history", "step " + std::to_string(step) + " (update #" + std::to_string(n_updates + 1) + "): graph with history vs fresh graph: " + d);
                // repeating the call reproduces the same state
                auto r2 = live.graph->update_routes(z);
                Observed lo2 = observe(*live.graph, r2, src, single_final);
                d = diff(lo, lo2);
                if (!d.empty())
                    c.fail("repeat-differs", "step " + std::to_string(step) + ": repeating update_routes with the same input: " + d);
                ++n_updates;
                if (n_updates >= 2 && changes_since_update > 0)
                    ++n_changes_between;
                changes_since_update = 0;
                break;
            }
            case 1:
            {
                vg::MaskInfo mi;
                mask = vg::gen_mask(s, fc.m, &mi);
                if (mask.empty())
                    mask.assign(n, 0);
                mask_set = true;
                live.graph->set_mask(mask);
                c.desc += " set_mask(" + vg::describe_mask(mask) + ")";
                // masked base levels are allowed to stay in the set (they count for nothing); at
                // least one unmasked base level must remain
                bool any_unmasked = false;
                for (auto b : bl)
                    if (!mask[b])
                        any_unmasked = true;
                if (!any_unmasked)
                {
                    for (size_t i = 0; i < n; ++i)
                        if (!mask[i])
                        {
                            bl.push_back(i);
                            break;
                        }
                    std::sort(bl.begin(), bl.end());
                    bl_explicit = true;
                    live.graph->set_base_levels(bl);
                    c.desc += " set_base_levels(" + vg::describe_set(bl) + ")";
                }
                ++changes_since_update;
                break;
            }
            case 2:
            {
                vg::BaseInfo bi;
                std::vector<uint8_t> mm = mask_set ? mask : std::vector<uint8_t>();
                auto nbl = vg::gen_base_levels(s, fc.m, mm, false, &bi);
                // generated insertion order
                std::vector<size_t> order = nbl;
                for (size_t i = order.size(); i > 1; --i)
                    std::swap(order[i - 1], order[s.u8() % i]);
                live.graph->set_base_levels(order);
                bl = nbl;
                bl_explicit = true;
                c.desc += " set_base_levels(" + vg::describe_set(order) + ")";
                ++changes_since_update;
                break;
            }
            case 3:
            {
                // change a writable operator parameter
                std::vector<size_t> cand;
                for (size_t k = 0; k < cur_ops.size(); ++k)
                    if (cur_ops[k].kind == va::OP_MULTI || cur_ops[k].kind == va::OP_MST)
                        cand.push_back(k);
                if (cand.empty())
                    break;
                size_t k = cand[s.u8() % cand.size()];
                if (cur_ops[k].kind == va::OP_MULTI)
                    cur_ops[k].p = vg::slope_exp_value(s);
                else
                {
                    if (s.coin())
                        cur_ops[k].mst = 1 - cur_ops[k].mst;
                    else
                    {
                        // keep the direction of later operators valid: route method only
                        cur_ops[k].route = 1 - cur_ops[k].route;
                    }
                }
                live.graph->set_op_param(k, cur_ops[k]);
                c.desc += " set_param(op" + std::to_string(k) + "=" + vg::describe(cur_ops[k]) + ")";
                ++changes_since_update;
                break;
            }
            case 4:
                live.graph->accumulate(1, src, 0, 3.5);
                c.desc += " accumulate";
                break;
            case 6:
            {
                // a call that is refused with an error (mask of the wrong shape) must leave the
                // graph as it was: the next update is compared with a fresh graph as usual
                bool threw = false;
                try
                {
                    live.graph->set_mask_bad_shape();
                }
                catch (const std::exception&)
                {
                    threw = true;
                }
                if (threw)
                    c.desc += " set_mask(wrong shape: refused)";
                else
                {
                    // accepted: no statement says what such a mask means - set the known one again
                    if (!mask_set)
                    {
                        mask.assign(n, 0);
                        mask_set = true;
                    }
                    live.graph->set_mask(mask);
                    c.desc += " set_mask(wrong shape: accepted, mask set again)";
                }
                break;
            }
            default:
                if (single_final && n_updates > 0)
                {
                    live.graph->basins();
                    live.graph->pits();
                    c.desc += " basins";
                }
        }
    }
    label_case(c, fc);
    c.label("prog=" + label_prog(ops));
    c.label("updates=" + std::to_string(n_updates));
    c.nontrivial = n_updates >= 2 && n_changes_between >= 1 && ties;
    if (ties)
        c.label("field-has-ties");
}
