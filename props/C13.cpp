// C13 -- stream-power step solves the implicit discrete equation.
#define PROPERTY_ID "C13"
#include "splcase.hpp"

using namespace vsp;
typedef long double LD;

static void check_case(vg::Src& s, vh::Ctx& c)
{
    SplCase sc = gen_spl_case(s, c.arg > 0 ? static_cast<size_t>(c.arg) : 8, true);
    c.desc = sc.describe();
    c.announce();
    label_case(c, sc.fc);
    c.label("n=" + vg::fmt(sc.n));
    c.label(sc.pi.final_multi ? "final=multi" : "final=single");
    size_t n = sc.fc.m.n;
    SplRun r = run_spl(sc, c);
    const double eps = DBL_EPSILON;
    size_t checked = 0, skipped_equal = 0, limited_total = 0;
    bool implicit_matters = false;
    size_t rounds = s.weighted({ 150, 70, 36 }) + 1;  // 1-3 steps with the same eroder object
    c.label("rounds=" + std::to_string(rounds));
    for (size_t round = 0; round < rounds; ++round)
    {
        std::string tag = "step#" + std::to_string(round + 1) + ": ";
        if (round > 0)
        {
            next_round(sc, r, s, c);  // (announces itself and extends the description)
        }
        size_t limited = 0;
        const bool linear = sc.n == 1.0;
        const double tol = r.spl->tolerance();
        for (size_t i = 0; i < n; ++i)
        {
            if (terminal(r, i))
                continue;
            double zi = r.z[i], ei = r.e[i];
            if (!std::isfinite(ei))
                c.fail("not-finite", "node " + std::to_string(i));
            double fl = floor_of(r, i);
            if (zi <= fl)
            {
                // no receiver is lower: the sum over lower receivers is empty and the equation
                // reduces to new - old = 0
                if (ei != 0)
                    c.fail("lake-residual", tag + "node " + std::to_string(i) + " (z=" + vg::fmt(zi) + ") has no lower receiver (lowest post-erosion receiver " + vg::fmt(fl) + ") but erosion " + vg::fmt(ei) + ": residual of the empty sum is " + vg::fmt(-ei));
                continue;
            }
            double znew = zi - ei;
            // "limited" is recognised from the output alone: the new elevation sits on the floor
            // (lowest post-erosion receiver) up to the safety increment of the limiter, whatever
            // its size (the library uses DBL_MIN; any increment inside the rounding margin is as good)
            bool at_floor = static_cast<LD>(znew) <= static_cast<LD>(fl) + 64 * eps * (fabsl(static_cast<LD>(zi)) + fabsl(static_cast<LD>(fl))) + 16 * static_cast<LD>(DBL_MIN);
            // terms of the discrete equation
            LD Rres = static_cast<LD>(znew) - zi;
            LD scale = std::fabs(znew) + std::fabs(zi);
            LD deriv_sum = 1;
            // (A w)^m is computed in double precision: where it falls below DBL_MIN it carries an
            // absolute error of up to DBL_MIN (underflow), which K dt - up to 1e100 in the
            // "extreme products" class - multiplies: 1e100 x 1e-308 is still far below the
            // rounding of any elevation, but not below a bound that is relative to F itself
            LD underflow = 0;
            bool equal_rec = false;
            LD Fsum_lin = 0, num_lin = zi;  // exact solution for n = 1
            LD F1 = 0, d1 = 1, zr1 = 0;     // single receiver (n != 1)
            for (size_t k = 0; k < r.st.rec_count[i]; ++k)
            {
                size_t j = R(r.st, i, k);
                if (r.z[j] > zi)
                    continue;  // higher receiver: does not contribute (lake spill)
                if (r.z[j] == zi)
                    equal_rec = true;
                LD zj = static_cast<LD>(r.z[j]) - r.e[j];
                LD d = D(r.st, i, k);
                LD F = static_cast<LD>(r.kn[i]) * sc.dt * powl(static_cast<LD>(r.area[i]) * W(r.st, i, k), static_cast<LD>(sc.m));
                LD drop = (static_cast<LD>(znew) - zj) / d;
                if (linear)
                {
                    Rres += F * drop;
                    Fsum_lin += F / d;
                    num_lin += F / d * zj;
                }
                else
                {
                    Rres += F * powl(drop < 0 ? 0 : drop, static_cast<LD>(sc.n));
                    F1 = F;
                    d1 = d;
                    zr1 = zj;
                }
                LD dr = fabsl(static_cast<LD>(znew) - zj) / d;
                underflow += static_cast<LD>(r.kn[i]) * sc.dt * static_cast<LD>(DBL_MIN) * (linear ? dr : powl(dr, static_cast<LD>(sc.n)));
                LD deriv = linear ? F / d : F * sc.n * powl(dr > 0 ? dr : 1e-300L, static_cast<LD>(sc.n) - 1) / d;
                scale += deriv * (fabsl(static_cast<LD>(zi)) + fabsl(static_cast<LD>(znew)) + fabsl(zj));
                deriv_sum += deriv;
                LD delta0 = static_cast<LD>(zi) - zj;
                LD strength = linear ? F / d : F / powl(d, static_cast<LD>(sc.n)) * powl(delta0 > 0 ? delta0 : 1e-300L, static_cast<LD>(sc.n) - 1);
                if (strength > 1e-6L && strength < 1e6L)
                    implicit_matters = true;
            }
            std::string at = tag + "node " + std::to_string(i) + " (z=" + vg::fmt(zi) + ", erosion=" + vg::fmt(ei) + ", new=" + vg::fmt(znew) + ", floor=" + vg::fmt(fl) + ", n=" + vg::fmt(sc.n) + ")";
            if (at_floor)
                ++limited;
            if (equal_rec)
            {
                ++skipped_equal;
                continue;
            }
            // relative rounding (64 eps on the magnitudes, amplified by the derivative of the implicit
            // term) plus the absolute quantum of subnormal results (elevations near 5e-324 are exact
            // only up to one subnormal increment, which the implicit term amplifies as well)
            LD bound = 64 * eps * scale + 16 * 4.9406564584124654e-324L * deriv_sum + 4 * underflow + (linear ? 0 : static_cast<LD>(tol));
            bool solves = fabsl(Rres) <= bound;
            if (solves)
            {
                ++checked;
                continue;
            }
            if (at_floor)
            {
                // erosion may be limited only when the model says the solution reaches the floor
                LD margin = 64 * eps * (fabsl(static_cast<LD>(zi)) + fabsl(static_cast<LD>(fl))) + 4 * DBL_MIN;
                if (linear)
                {
                    LD zstar = num_lin / (1 + Fsum_lin);
                    // rounding of the quotient is relative to the magnitude of its operands
                    LD m2 = margin + 64 * eps * fabsl(zstar);
                    if (zstar > fl + m2)
                        c.fail("limited-without-need", at + ": erosion was limited although the exact solution " + vg::fmt(static_cast<double>(zstar)) + " stays above the floor");
                }
                else
                {
                    LD delta0 = static_cast<LD>(zi) - zr1;
                    LD G = F1 / powl(d1, static_cast<LD>(sc.n));
                    if (sc.n > 1)
                    {
                        // Newton from the right on a convex function cannot overshoot: the solution
                        // delta* > 0 solves delta + G delta^n = delta0 ; limited only if it is within
                        // the tolerance/rounding of zero
                        LD lo = 0, hi = delta0;
                        for (int it = 0; it < 200; ++it)
                        {
                            LD mid = (lo + hi) / 2;
                            if (mid + G * powl(mid, static_cast<LD>(sc.n)) > delta0)
                                hi = mid;
                            else
                                lo = mid;
                        }
                        if (lo > margin + tol)
                            c.fail("limited-without-need", at + ": erosion was limited although the solution keeps a drop of " + vg::fmt(static_cast<double>(lo)) + " to the receiver");
                    }
                    else
                    {
                        // n < 1: limited iff some Newton iterate is <= 0; the first step from delta0
                        // is delta0 - f/f' ; accept when it is not clearly positive
                        LD f0 = G * powl(delta0, static_cast<LD>(sc.n));
                        LD fp = 1 + sc.n * f0 / delta0;
                        LD d1s = delta0 - f0 / fp;
                        if (d1s > margin + 1e-9L * fabsl(delta0))
                            c.fail("limited-without-need", at + ": erosion was limited although the first Newton iterate " + vg::fmt(static_cast<double>(d1s)) + " is positive");
                    }
                }
                continue;
            }
            c.fail(linear ? "linear-residual" : "newton-residual",
                       at + ": residual of the backward-Euler equation " + vg::fmt(static_cast<double>(Rres)) + " exceeds " + vg::fmt(static_cast<double>(bound)) + (linear ? " (rounding)" : " (tolerance " + vg::fmt(tol) + " + rounding)"));
        }
        limited_total += limited;
        if (limited < r.n_corr)
            c.fail("n-corr", tag + "n_corr() = " + std::to_string(r.n_corr) + " but only " + std::to_string(limited) + " nodes carry the limited erosion value");
    }
    c.nontrivial = checked > 0 && implicit_matters;
    if (limited_total)
        c.label("limited-nodes");
    if (skipped_equal)
        c.label("skipped-equal-receiver");
    if (checked)
        c.label("residual-checked");
}
