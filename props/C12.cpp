// C12 -- stream-power erosion is non-negative and never reverses a slope.
#define PROPERTY_ID "C12"
#include "splcase.hpp"

using namespace vsp;

static void check_case(vg::Src& s, vh::Ctx& c)
{
    SplCase sc = gen_spl_case(s, c.arg > 0 ? static_cast<size_t>(c.arg) : 8, false, true);
    c.desc = sc.describe();
    c.announce();
    label_case(c, sc.fc);
    c.label("prog=" + label_prog(sc.ops));
    c.label("n=" + vg::fmt(sc.n));
    c.label(sc.pi.final_multi ? "final=multi" : "final=single");
    size_t n = sc.fc.m.n;

    // a graph snapshot taken behind a multiple-direction router is a multiple-direction graph as
    // well: an eroder with a slope exponent other than one must be refused on it (seeded change
    // C12-G: snapshots answer "single flow" because they own no operators)
    auto snapshots_reject = [&](va::IGraph& g)
    {
        vg::ProgModel pm = vg::model_program(sc.ops);
        for (size_t k = 0; k < pm.graph_keys.size(); ++k)
        {
            if (pm.snap_single[k] || std::count(pm.graph_keys.begin(), pm.graph_keys.end(), pm.graph_keys[k]) > 1)
                continue;
            va::IGraph& sg = g.graph_snapshot(pm.graph_keys[k]);
            double n2 = sc.n != 1.0 ? sc.n : 1.5;
            bool threw = false;
            try
            {
                auto spl = sg.make_spl(sc.k_is_array, sc.k, sc.karr, sc.m, n2, sc.tol, sc.default_tol);
            }
            catch (const std::exception&)
            {
                threw = true;
            }
            c.expect(threw, "nonlinear-on-multi-accepted", "constructing spl_eroder with slope exponent " + vg::fmt(n2) + " on the multiple-direction graph snapshot '" + pm.graph_keys[k] + "' was accepted");
            c.label("rejection-on-snapshot");
        }
    };
    // exponent validation: n != 1 on a multiple-direction graph must be rejected
    if (sc.pi.final_multi && sc.n != 1.0)
    {
        Built b = build(sc.fc, sc.ops, c);
        b.graph->update_routes(sc.fc.z);
        snapshots_reject(*b.graph);
        bool threw = false;
        try
        {
            auto spl = b.graph->make_spl(sc.k_is_array, sc.k, sc.karr, sc.m, sc.n, sc.tol, sc.default_tol);
        }
        catch (const std::exception&)  // "is rejected": any error type counts
        {
            threw = true;
        }
        c.expect(threw, "nonlinear-on-multi-accepted", "constructing spl_eroder with slope exponent " + vg::fmt(sc.n) + " on a multiple-direction graph was accepted");
        // also through the setter of an eroder that was valid
        auto spl = b.graph->make_spl(sc.k_is_array, sc.k, sc.karr, sc.m, 1.0, sc.tol, sc.default_tol);
        threw = false;
        try
        {
            spl->set_slope_exp(sc.n);
        }
        catch (const std::exception&)  // "is rejected": any error type counts
        {
            threw = true;
        }
        c.expect(threw, "nonlinear-on-multi-accepted", "set_slope_exp(" + vg::fmt(sc.n) + ") on a multiple-direction graph was accepted");
        // the refused call left the eroder as it was (exponent one): same erosion, bit for bit, as
        // an eroder that never saw the call
        {
            auto res = b.graph->update_routes(sc.fc.z);
            auto area = b.graph->accumulate(2, {}, 1.0, 0);
            for (auto& a : area)
                a = std::fabs(a);
            auto spl_ref = b.graph->make_spl(sc.k_is_array, sc.k, sc.karr, sc.m, 1.0, sc.tol, sc.default_tol);
            auto e1 = spl->erode(res.out, area, sc.dt), e2 = spl_ref->erode(res.out, area, sc.dt);
            for (size_t i = 0; i < n; ++i)
                if (!vg::biteq(e1[i], e2[i]))
                    c.fail("state-after-refused-call", "after the refused set_slope_exp(" + vg::fmt(sc.n) + ") node " + std::to_string(i) + " erodes " + vg::fmt(e1[i]) + ", an untouched eroder with exponent one " + vg::fmt(e2[i]));
        }
        c.nontrivial = true;
        c.label("rejection-case");
        return;
    }
    SplRun r = run_spl(sc, c);
    snapshots_reject(*r.b.graph);
    size_t eroded = 0, lakes = 0, clamped = 0;
    size_t rounds = s.weighted({ 150, 70, 36 }) + 1;  // 1-3 steps with the same eroder object
    c.label("rounds=" + std::to_string(rounds));
    for (size_t round = 0; round < rounds; ++round)
    {
        std::string tag = "step#" + std::to_string(round + 1) + ": ";
        if (round > 0)
        {
            next_round(sc, r, s, c);  // (announces itself and extends the description)
        }
        c.expect(r.e.size() == n, "erosion-size", "");
        auto examine = [&](const std::string& tag)
        {
        for (size_t i = 0; i < n; ++i)
        {
            double ei = r.e[i];
            std::string at = tag + "node " + std::to_string(i) + " (z=" + vg::fmt(r.z[i]) + ", erosion=" + vg::fmt(ei) + ")";
            if (!std::isfinite(ei))
                c.fail("not-finite", at);
            if (terminal(r, i))
            {
                if (ei != 0)
                    c.fail(sc.fc.masked(i) ? "masked-eroded" : sc.fc.isbase[i] ? "base-level-eroded" : "pit-eroded", at);
                continue;
            }
            double fl = floor_of(r, i);
            // rounding allowance: the linear solve accumulates one product per receiver in the
            // numerator and the denominator (up to n_neighbors_max terms, duplicates included)
            double mag = (std::fabs(r.z[i]) + std::fabs(fl)) * (1.0 + 0.5 * static_cast<double>(r.st.rec_count[i]));
            if (r.z[i] <= fl)
            {
                ++lakes;
                if (ei != 0)
                    c.fail("lake-eroded", at + " lies at or below its lowest receiver (" + vg::fmt(fl) + ")");
                continue;
            }
            // (the erosion limiter places a node DBL_MIN above its floor: an absolute quantum of a
            // few DBL_MIN is part of "rounding" for elevations in the subnormal range)
            const double floor_q = 4 * DBL_MIN;
            if (ei < -4e-16 * mag - floor_q)
                c.fail("negative-erosion", at);
            double znew = r.z[i] - ei;
            if (znew < fl - 4e-16 * mag - floor_q)
                c.fail("slope-reversed", at + ": new elevation " + vg::fmt(znew) + " is below the lowest post-erosion receiver elevation " + vg::fmt(fl));
            if (ei > 0)
                ++eroded;
            if (vg::biteq(ei, r.z[i] - (fl + DBL_MIN)))
                ++clamped;
        }
        };
        examine(tag);
        // the same step asked once more of the same eroder: a step like any other (whatever the
        // eroder remembers of the previous call - nothing, in the unchanged library - the result
        // has to satisfy the statement again; bit-for-bit repetition is not demanded: a solver
        // that starts Newton from its previous solution would be legitimate)
        {
            auto first = r.e;
            r.e = r.spl->erode(r.z, r.area, sc.dt);
            c.expect(r.e.size() == n, "erosion-size", "");
            examine(tag + "(same call repeated) ");
            r.e = first;
        }
    }
    c.nontrivial = eroded > 0 && (lakes > 0 || clamped > 0);
    if (eroded)
        c.label("eroded");
    if (lakes)
        c.label("lake-nodes");
    if (clamped)
        c.label("clamped-nodes");
}
