// C05 -- multiple-direction routing partitions flow over all lower neighbours.
#define PROPERTY_ID "C05"
#include "flowcase.hpp"

using namespace vf;

namespace
{
    struct Ent
    {
        size_t idx;
        double dist;
        double w;
        bool operator<(const Ent& o) const
        {
            return idx < o.idx || (idx == o.idx && dist < o.dist);
        }
    };

    bool check_state(vh::Ctx& c, const FlowCase& fc, const std::vector<double>& f, const GraphState& st, double p, const std::string& tag)
    {
        size_t n = fc.m.n;
        bool interesting = false;
        for (size_t i = 0; i < n; ++i)
        {
            std::string at = tag + " node " + std::to_string(i) + " (elev=" + vg::fmt(f[i]) + ")";
            std::vector<Ent> want;
            if (!fc.masked(i) && !fc.isbase[i])
                for (auto& nb : fc.m.nb[i])
                    if (!fc.masked(nb.idx) && f[nb.idx] < f[i])
                        want.push_back({ nb.idx, nb.dist, 0 });
            if (want.empty())
            {
                if (st.rec_count[i] != 1 || R(st, i, 0) != i)
                    c.fail(fc.masked(i) ? "masked-drains" : fc.isbase[i] ? "base-level-drains" : "flows-without-lower-neighbour",
                           at + ": expected a single self receiver, got count " + std::to_string(st.rec_count[i]) + " first " + std::to_string(R(st, i, 0)));
                continue;
            }
            std::vector<Ent> got;
            for (size_t k = 0; k < st.rec_count[i]; ++k)
                got.push_back({ R(st, i, k), D(st, i, k), W(st, i, k) });
            // reference weights in log space
            {
                std::vector<long double> lw(want.size());
                long double mx = -INFINITY;
                for (size_t k = 0; k < want.size(); ++k)
                {
                    long double sl = (static_cast<long double>(f[i]) - static_cast<long double>(f[want[k].idx])) / static_cast<long double>(want[k].dist);
                    lw[k] = static_cast<long double>(p) * logl(sl);
                    mx = std::max(mx, lw[k]);
                }
                long double sum = 0;
                for (auto& x : lw)
                {
                    x = expl(x - mx);
                    sum += x;
                }
                for (size_t k = 0; k < want.size(); ++k)
                    want[k].w = static_cast<double>(lw[k] / sum);
                std::set<long double> distinct(lw.begin(), lw.end());
                if (want.size() >= 2 && (distinct.size() >= 2 || p == 0))
                    interesting = true;
            }
            auto show = [](const std::vector<Ent>& v)
            {
                std::string r = "{";
                for (auto& e : v)
                    r += std::to_string(e.idx) + "@" + vg::fmt(e.dist) + ":w=" + vg::fmt(e.w) + " ";
                return r + "}";
            };
            // multiset comparison by (idx, dist) with weights attached; entries with the same
            // (idx) have the same distance and slope, hence the same weight
            std::sort(got.begin(), got.end());
            std::sort(want.begin(), want.end());
            bool ok = got.size() == want.size();
            for (size_t k = 0; ok && k < got.size(); ++k)
            {
                long long d = vg::ulpdist(want[k].dist, got[k].dist);
                ok = got[k].idx == want[k].idx && d >= -4 && d <= 4;
            }
            if (!ok)
                c.fail("receiver-set", at + ": library " + show(got) + " strictly lower unmasked neighbours " + show(want));
            double sum = 0;
            for (size_t k = 0; k < got.size(); ++k)
            {
                if (!std::isfinite(got[k].w) || got[k].w < 0 || got[k].w > 1)
                    c.fail("weight-range", at + ": weights " + show(got) + " (p=" + vg::fmt(p) + ")");
                sum += got[k].w;
                if (std::fabs(got[k].w - want[k].w) > 1e-9)
                    c.fail("weight-value", at + ": library " + show(got) + " slope^p partition " + show(want) + " (p=" + vg::fmt(p) + ")");
            }
            if (std::fabs(sum - 1.0) > 1e-12 * static_cast<double>(got.size()))
                c.fail("weights-sum", at + ": weights sum to " + vg::fmt(sum));
        }
        return interesting;
    }
}

static void check_case(vg::Src& s, vh::Ctx& c)
{
    FlowOpts o;
    o.grid.max_side = c.arg > 0 ? static_cast<size_t>(c.arg) : 10;
    o.grid.large_side = c.arg >= 16 ? 72 : 40;  // ~3% large grids
    FlowCase fc = gen_flow_case(s, o);
    bool pflood = s.chance(90);
    double p1 = vg::slope_exp_value(s), p2 = vg::slope_exp_value(s);
    bool second = s.chance(128);
    std::vector<OpSpec> ops;
    if (pflood)
        ops.push_back(vg::op_pflood());
    ops.push_back(vg::op_multi(p1));
    // "after the multiple-direction router runs": in one case out of four later operators follow
    // it (a single-direction router) and the state right after the multiple-direction router is
    // read from a graph snapshot placed behind it (seeded change C05-G: tables sized from the
    // direction of the LAST router)
    bool via_snapshot = s.chance(64);
    size_t multi_pos = ops.size() - 1;
    if (via_snapshot)
    {
        ops.push_back(vg::op_snap("m", true, false));
        ops.push_back(vg::op_single(0));
        c.label("state-read-from-snapshot-behind-the-router");
    }
    FlowCase fc2 = fc;
    if (second && s.coin())
    {
        fc2.z = vg::gen_field(s, fc.m, &fc2.fi);
    }
    c.desc = fc.describe() + " ops=" + vg::describe(ops) + (second ? " then p=" + vg::fmt(p2) + " z2=" + vg::describe_field(fc2.z, 0) : "");
    c.announce();
    label_case(c, fc);
    c.label(std::string("pflood=") + (pflood ? "1" : "0"));
    c.label("p=" + vg::fmt(p1));
    Built b = build(fc, ops, c);
    auto res = b.graph->update_routes(fc.z);
    auto state_of = [&]() { return via_snapshot ? b.graph->graph_snapshot("m").state() : b.graph->state(); };
    GraphState st = state_of();
    check_wellformed(c, st, fc.m.n);
    bool nt = check_state(c, fc, res.out, st, p1, "update#1");
    if (second)
    {
        OpSpec np = vg::op_multi(p2);
        b.graph->set_op_param(multi_pos, np);
        if (s.chance(100))
        {
            // new mask / base levels (and sometimes a refused call) before the second update
            std::string what = mutate_settings(s, fc2, *b.graph, false);
            c.desc += " |" + what;
            if (c.verbose)
                std::cout << "STEP" << what << std::endl;
            c.label("settings-changed-between-updates");
        }
        auto res2 = b.graph->update_routes(fc2.z);
        GraphState st2 = state_of();
        check_wellformed(c, st2, fc.m.n);
        nt = check_state(c, fc2, res2.out, st2, p2, "update#2(p changed)") || nt;
        c.label("second-update");
    }
    c.nontrivial = nt;
}
