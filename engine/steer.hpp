// Schedule steering and stuck-state monitoring on top of the thread-pool hooks
// (FASTSCAPELIB_VERIF_SCHED points in utils/thread_pool.hpp).  Shared by C10 and C11.
#pragma once
#include <algorithm>
#include <atomic>
#include <cassert>
#include <chrono>
#include <string>
#include <thread>
#include <vector>
#include <unistd.h>
#include "fastscapelib/utils/thread_pool.hpp"
#include "src.hpp"

namespace fsv = fastscapelib::verif;

namespace vs
{
    constexpr int NPOINTS = 19;
    constexpr int NTHREADS = 18;  // caller = 0, workers 1..17

    struct Rule
    {
        int point;
        int tid;  // -1 any
        unsigned occurrence;  // k-th time (1-based), 0 = every time
        int action;  // 0 yield, 1 sleep, 2 hold-until
        unsigned amount;
        int until_tid, until_point;
        unsigned bound_ms = 200;  // upper bound of a hold (an order constraint never blocks forever)
        std::atomic<unsigned> fired{ 0 };
        Rule() = default;
        Rule(const Rule& o)
            : point(o.point), tid(o.tid), occurrence(o.occurrence), action(o.action), amount(o.amount), until_tid(o.until_tid), until_point(o.until_point), bound_ms(o.bound_ms), fired(o.fired.load())
        {
        }
    };

    struct Tracker
    {
        std::atomic<unsigned long> seq{ 0 };
        std::atomic<int> last_point[NTHREADS];
        std::atomic<unsigned long> last_seq[NTHREADS];
        std::atomic<unsigned long> change_seq[NTHREADS];  // event at which last_point last CHANGED
        std::atomic<unsigned> count[NTHREADS][NPOINTS];
        std::vector<Rule> rules;
        std::atomic<bool> steering{ false };
        // all holds of one case together may take at most this long: an order constraint that
        // cannot be satisfied only delays, and the delays of a case must stay far below the
        // per-case stopwatch (64 firings x 200 ms x 5 rules would not)
        std::atomic<long long> hold_budget_ms{ 4000 };
        // caller phase for the monitor
        std::atomic<long long> call_started_ms{ 0 };  // 0 = not inside a pool call
        std::atomic<unsigned long> call_start_seq{ 0 };  // event counter when that call began
        std::atomic<int> call_kind{ 0 };
        void reset()
        {
            seq = 0;
            for (int t = 0; t < NTHREADS; ++t)
            {
                last_point[t] = 0;
                last_seq[t] = 0;
                change_seq[t] = 0;
                for (int p = 0; p < NPOINTS; ++p)
                    count[t][p] = 0;
            }
            rules.clear();
            hold_budget_ms = 4000;
            call_started_ms = 0;
        }
    };
    inline Tracker g_tr;

    inline long long now_ms()
    {
        return std::chrono::duration_cast<std::chrono::milliseconds>(std::chrono::steady_clock::now().time_since_epoch()).count();
    }

    inline const char* point_name(int p)
    {
        static const char* n[] = { "-", "pausejob_before_lock", "pausejob_after_lock", "pausejob_after_inc(before cv.wait)", "pausejob_after_wait", "runtasks_before_store", "runtasks_after_store", "pause_spin", "resume_before_notify", "resume_after_notify", "wait_spin", "worker_loop", "worker_before_job", "worker_after_job", "worker_after_clear", "stop_before_join", "worker_exit", "wait_done", "pause_done" };
        return p >= 0 && p < NPOINTS ? n[p] : "?";
    }

    inline void hook(int point, std::size_t worker, const void*)
    {
        int tid = worker == static_cast<std::size_t>(-1) ? 0 : static_cast<int>(worker) + 1;
        if (tid >= NTHREADS || point >= NPOINTS)
            return;
        unsigned long s = g_tr.seq.fetch_add(1, std::memory_order_relaxed);
        if (g_tr.last_point[tid].load(std::memory_order_relaxed) != point)
            g_tr.change_seq[tid].store(s, std::memory_order_relaxed);
        g_tr.last_point[tid].store(point, std::memory_order_relaxed);
        g_tr.last_seq[tid].store(s, std::memory_order_relaxed);
        unsigned k = g_tr.count[tid][point].fetch_add(1, std::memory_order_relaxed) + 1;
        if (!g_tr.steering.load(std::memory_order_relaxed))
            return;
        for (auto& r : g_tr.rules)
        {
            if (r.point != point || (r.tid >= 0 && r.tid != tid) || (r.occurrence && r.occurrence != k))
                continue;
            // a perturbation acts at most 64 times per case (a rule on a spin iteration would
            // otherwise stretch a case from milliseconds to minutes)
            if (r.fired.fetch_add(1, std::memory_order_relaxed) >= 64)
                continue;
            if (r.action == 0)
            {
                for (unsigned i = 0; i < r.amount; ++i)
                    std::this_thread::yield();
            }
            else if (r.action == 1)
            {
                std::this_thread::sleep_for(std::chrono::microseconds(r.amount));
            }
            else
            {
                // hold until thread `until_tid` has passed point `until_point` once more
                // (an order constraint, bounded by 200 ms so that it can never block forever)
                unsigned base = g_tr.count[r.until_tid][r.until_point].load(std::memory_order_relaxed);
                long long t0 = now_ms();
                long long allowed = std::min<long long>(static_cast<long long>(r.bound_ms), g_tr.hold_budget_ms.load(std::memory_order_relaxed));
                while (g_tr.count[r.until_tid][r.until_point].load(std::memory_order_relaxed) == base && now_ms() - t0 < allowed)
                    std::this_thread::yield();
                g_tr.hold_budget_ms.fetch_sub(now_ms() - t0, std::memory_order_relaxed);
            }
        }
    }

    // monitor: termination as a logical predicate
    inline void monitor_main()
    {
        for (;;)
        {
            std::this_thread::sleep_for(std::chrono::milliseconds(100));
            long long t0 = g_tr.call_started_ms.load(std::memory_order_relaxed);
            if (t0 == 0)
                continue;
            long long dt = now_ms() - t0;
            if (dt < 10000)
                continue;
            // Provably stuck, as a predicate over the tracked state, sampled twice one second apart:
            //  * the caller stayed in ONE spin loop during the whole window (its last schedule point
            //    is wait_spin or pause_spin at both samples and did not change in between) and is
            //    alive (it passed that point again in between, i.e. it re-evaluated the loop
            //    condition and found it unchanged).  While it spins it neither sets a job flag nor
            //    notifies; nobody else ever does;
            //  * every worker is in one of three states during the whole window:
            //      (a) blocked: last point "after ++m_paused_count" (it sits in the condition-variable
            //          wait of its pause job) and no event in the window;
            //      (b) idle: last point is the top of the worker loop, unchanged in the window, and
            //          it passed that point at least twice more in the window - so it completed an
            //          iteration that found its own job flag clear while the caller was already
            //          spinning, and only the caller could set it again;
            //      (c) gone: exited, or never started.
            //    A worker anywhere else (running a job, before the counter increment, returning from
            //    the wait, inside a perturbation of the steering plan) may still make progress:
            //    then the state is merely slow and nothing is concluded;
            //  * wait(): the loop condition "some job flag is set" can only be changed by a worker
            //    clearing its flag after a job; workers of kind (b) have theirs clear, (a) and (c)
            //    never clear one => it stays as it is.  pause(): the loop condition
            //    "m_paused_count != m_size" can only be changed by a worker entering or leaving a
            //    pause job; (a) is blocked until a notification, (b) has no job, (c) is gone => same.
            struct Snap
            {
                int lp[NTHREADS];
                unsigned long seq[NTHREADS], chg[NTHREADS];
                unsigned loops[NTHREADS];
            };
            auto sample = [&](Snap& q)
            {
                for (int t = 0; t < NTHREADS; ++t)
                {
                    q.lp[t] = g_tr.last_point[t].load(std::memory_order_relaxed);
                    q.seq[t] = g_tr.last_seq[t].load(std::memory_order_relaxed);
                    q.chg[t] = g_tr.change_seq[t].load(std::memory_order_relaxed);
                    q.loops[t] = g_tr.count[t][fsv::worker_loop].load(std::memory_order_relaxed);
                }
            };
            Snap s1, s2;
            sample(s1);
            std::this_thread::sleep_for(std::chrono::milliseconds(1000));
            sample(s2);
            int cp = s2.lp[0];
            bool caller_spins = (cp == fsv::wait_spin || cp == fsv::pause_spin) && s1.lp[0] == cp && s1.chg[0] == s2.chg[0] && s2.seq[0] != s1.seq[0];
            // ... or it is blocked in join() (stop / resize / destruction): no event in the window
            // (the passage of "before join" must belong to THIS call: a caller that is slow somewhere
            // else - e.g. creating the threads of the next pool on a loaded machine - still shows
            // the join of an earlier call as its last schedule point; met as a false alarm)
            bool caller_joins = cp == fsv::stop_before_join && s1.lp[0] == cp && s1.seq[0] == s2.seq[0] && s2.seq[0] >= g_tr.call_start_seq.load(std::memory_order_relaxed)
                                && g_tr.count[0][fsv::stop_before_join].load(std::memory_order_relaxed) > 0;
            int waiting_workers = 0, first_waiting = -1, idle_workers = 0;
            bool all_classified = true;
            for (int t = 1; t < NTHREADS; ++t)
            {
                int lp = s2.lp[t];
                if (lp == fsv::pausejob_after_inc && s1.lp[t] == lp && s1.seq[t] == s2.seq[t])
                {
                    ++waiting_workers;
                    if (first_waiting < 0)
                        first_waiting = t - 1;
                }
                else if (lp == fsv::worker_loop && s1.lp[t] == lp && s1.chg[t] == s2.chg[t] && s2.loops[t] - s1.loops[t] >= 2)
                    ++idle_workers;
                else if ((lp == 0 || lp == fsv::worker_exit) && s1.lp[t] == lp && s1.seq[t] == s2.seq[t])
                    ;
                else
                    all_classified = false;
            }
            // wait(): a set flag belongs to a blocked worker (the lost wake-up) or to a worker that is
            // gone - idle workers saw theirs clear.  join(): m_stopped was set before, so an idle worker
            // that keeps looping has not been told to stop and a blocked one will not be notified.
            bool stuck = all_classified && g_tr.call_started_ms.load(std::memory_order_relaxed) == t0
                         && ((caller_spins && (cp == fsv::wait_spin || idle_workers > 0)) || (caller_joins && waiting_workers + idle_workers > 0));
            char buf[700];
            if (stuck)
            {
                int len;
                if (cp == fsv::wait_spin && waiting_workers > 0)
                    len = snprintf(buf, sizeof buf,
                                   "\nPOOL-STUCK: caller has been inside one pool call for %lld ms and spins in wait(); worker %d (and %d in total) "
                                   "is blocked in the condition-variable wait of its pause job with its job flag still set; every other worker is idle; nobody else notifies -> no progress possible (lost wake-up)\n",
                                   dt, first_waiting, waiting_workers);
                else if (cp == fsv::wait_spin)
                    len = snprintf(buf, sizeof buf,
                                   "\nPOOL-STUCK: caller has been inside one pool call for %lld ms and spins in wait() on a job flag that no live worker will clear "
                                   "(%d idle worker(s) saw their own flag clear, the others are gone) -> no progress possible (job handed to nobody)\n",
                                   dt, idle_workers);
                else if (cp == fsv::pause_spin)
                    len = snprintf(buf, sizeof buf,
                                   "\nPOOL-STUCK: caller has been inside one pool call for %lld ms and spins in pause() waiting for every worker to be counted as paused; "
                                   "%d worker(s) sit in the condition-variable wait, %d worker(s) are idle in their loop with no job (they will never be counted), nobody can change the count -> no progress possible\n",
                                   dt, waiting_workers, idle_workers);
                else
                    len = snprintf(buf, sizeof buf,
                                   "\nPOOL-STUCK: caller has been blocked in join() for %lld ms; %d worker(s) sit in the condition-variable wait of a pause job (nobody notifies), "
                                   "%d worker(s) keep looping without having been told to stop -> no progress possible (join never returns)\n",
                                   dt, waiting_workers, idle_workers);
                ssize_t w = write(2, buf, static_cast<size_t>(len));
                (void) w;
                for (int t = 0; t < NTHREADS; ++t)
                    if (g_tr.last_point[t].load())
                    {
                        len = snprintf(buf, sizeof buf, "  %s %d last at %s (event %lu of %lu)\n", t == 0 ? "caller" : "worker", t == 0 ? 0 : t - 1, point_name(g_tr.last_point[t].load()), g_tr.last_seq[t].load(), g_tr.seq.load());
                        w = write(2, buf, static_cast<size_t>(len));
                    }
                _exit(88);
            }
            if (dt > 40000)
            {
                int len = snprintf(buf, sizeof buf, "\nPOOL-SLOW: caller inside one pool call (kind %d) for %lld ms (caller at %s) without a provably stuck state: inconclusive\n", g_tr.call_kind.load(), dt, point_name(cp));
                ssize_t w = write(2, buf, static_cast<size_t>(len));
                (void) w;
                for (int t = 1; t < NTHREADS; ++t)
                    if (g_tr.last_point[t].load())
                    {
                        len = snprintf(buf, sizeof buf, "  worker %d last at %s (event %lu)\n", t - 1, point_name(g_tr.last_point[t].load()), g_tr.last_seq[t].load());
                        w = write(2, buf, static_cast<size_t>(len));
                    }
                _exit(89);
            }
        }
    }

    struct CallScope
    {
        CallScope(int kind)
        {
            g_tr.call_kind.store(kind, std::memory_order_relaxed);
            g_tr.call_start_seq.store(g_tr.seq.load(std::memory_order_relaxed), std::memory_order_relaxed);
            g_tr.call_started_ms.store(now_ms(), std::memory_order_relaxed);
        }
        ~CallScope()
        {
            g_tr.call_started_ms.store(0, std::memory_order_relaxed);
        }
    };


    inline void install()
    {
        static std::atomic<bool> started{ false };
        if (!started.exchange(true))
        {
            std::thread(monitor_main).detach();
            fsv::sched_hook().store(&hook);
        }
    }

    inline std::string describe_rule(const Rule& r)
    {
        return std::string("[") + point_name(r.point) + " tid=" + std::to_string(r.tid) + " occ=" + std::to_string(r.occurrence)
               + (r.action == 0 ? " yield " + std::to_string(r.amount) : r.action == 1 ? " sleep " + std::to_string(r.amount) + "us" : " hold-until tid" + std::to_string(r.until_tid) + "@" + point_name(r.until_point)) + "]";
    }

    // generated perturbation rules (yield / sleep / bounded hold)
    inline Rule gen_rule(vg::Src& s, bool allow_hold)
    {
        Rule r;
        r.point = static_cast<int>(s.range(1, NPOINTS - 1));
        size_t who = s.weighted({ 100, 60, 96 });
        r.tid = who == 0 ? -1 : (who == 1 ? 0 : static_cast<int>(s.range(1, 8)));
        r.occurrence = static_cast<unsigned>(s.weighted({ 120, 60, 40, 36 }));
        r.action = static_cast<int>(s.weighted({ 120, 60, allow_hold ? 76u : 0u }));
        r.amount = r.action == 0 ? static_cast<unsigned>(s.range(1, 200)) : static_cast<unsigned>(s.range(1, 40)) * 50;
        r.until_tid = s.coin() ? 0 : static_cast<int>(s.range(1, 8));
        r.until_point = static_cast<int>(s.range(1, NPOINTS - 1));
        return r;
    }
}
