// Stream-power eroder cases shared by C12 and C13.
#pragma once
#include <cfloat>
#include "flowcase.hpp"

namespace vsp
{
    using namespace vf;

    struct SplCase
    {
        FlowCase fc;
        std::vector<OpSpec> ops;
        ProgInfo pi;
        bool k_is_array = false;
        double k = 0;
        std::vector<double> karr;
        double m = 0.5, n = 1, tol = 1e-3, dt = 1;
        bool default_tol = false;
        int elev_mode = 0;  // 0 returned (corrected) elevation, 1 raw input, 2 another field
        int area_mode = 0;  // 0 graph.accumulate(1), 1 generated non-negative field
        std::vector<double> other_elev, gen_area;
        std::string describe() const
        {
            return fc.describe() + " ops=" + vg::describe(ops) + " spl(K=" + (k_is_array ? "array*" + vg::fmt(k) : vg::fmt(k)) + ",m=" + vg::fmt(m) + ",n=" + vg::fmt(n) + ",tol=" + (default_tol ? std::string("default") : vg::fmt(tol)) + ",dt=" + vg::fmt(dt) + ",elev=" + std::to_string(elev_mode) + ",area=" + std::to_string(area_mode) + ")";
        }
    };

    inline SplCase gen_spl_case(vg::Src& s, size_t max_side, bool force_single_for_nonlinear, bool allow_snapshots = false)
    {
        SplCase sc;
        FlowOpts o;
        o.grid.max_side = max_side;
        o.grid.large_side = max_side >= 16 ? 64 : 32;
        o.grid.mesh_max_side = 5;
        o.ordinary_fields = true;  // |z| <= 100: Newton tolerances >= 1e-9 stay above rounding
        o.every_component = !s.chance(40);
        sc.fc = gen_flow_case(s, o);
        sc.ops = gen_valid_program(s, allow_snapshots, &sc.pi);
        static const double ms[] = { 0.5, 0.0, 0.4, 1.0, 2.0 };
        // slope exponents below, at and above one, including values next to one (the linear /
        // non-linear switch) and far from it
        // (0.9995 / 1.0005: closer to one than the Newton tolerances in use - seeded change C13-G
        // takes the linear path whenever |n - 1| <= tolerance)
        static const double ns[] = { 1.0, 0.5, 0.8, 1.5, 2.0, 3.0, 0.3, 0.99, 1.01, 4.0, 0.9995, 1.0005 };
        sc.m = ms[s.weighted({ 90, 30, 50, 50, 36 })];
        sc.n = ns[s.weighted({ 66, 34, 24, 34, 34, 20, 8, 6, 6, 8, 8, 8 })];
        if (force_single_for_nonlinear && sc.pi.final_multi)
            sc.n = 1.0;
        int kexp = static_cast<int>(s.range(0, 8)) - 6;
        sc.k = s.chance(14) ? 0.0 : std::pow(10.0, kexp) * (0.5 + s.unit());
        sc.k_is_array = s.chance(90);
        if (sc.k_is_array)
        {
            sc.karr.resize(sc.fc.m.n);
            for (auto& e : sc.karr)
            {
                uint8_t b = s.u8();
                e = b < 16 ? 0.0 : sc.k * (0.1 + 2.0 * static_cast<double>(b) / 255.0);
            }
        }
        size_t dtc = s.weighted({ 150, 14, 40, 40, 12 });
        if (dtc == 0)
            sc.dt = std::pow(10.0, static_cast<int>(s.range(0, 7)) - 2) * (0.5 + s.unit());
        else if (dtc == 1)
            sc.dt = 0.0;
        else if (dtc == 2)
            sc.dt = std::pow(10.0, 10 + static_cast<int>(s.range(0, 40)));  // extreme products
        else if (dtc == 3)
            sc.dt = std::pow(10.0, -10 - static_cast<int>(s.range(0, 20)));
        else
            sc.dt = 1e100;
        sc.default_tol = s.chance(30);
        sc.tol = sc.default_tol ? 1e-3 : std::pow(10.0, -static_cast<int>(s.range(2, 9)));
        sc.elev_mode = static_cast<int>(s.weighted({ 180, 50, 26 }));
        sc.area_mode = static_cast<int>(s.weighted({ 190, 66 }));
        if (sc.elev_mode == 2)
            sc.other_elev = vg::gen_field(s, sc.fc.m, nullptr, true);
        if (sc.area_mode == 1)
        {
            sc.gen_area = vg::gen_field(s, sc.fc.m, nullptr, true);
            for (auto& e : sc.gen_area)
                e = std::fabs(e);
        }
        return sc;
    }

    struct SplRun
    {
        Built b;
        GraphState st;
        std::vector<double> z;     // elevation passed to the eroder
        std::vector<double> area;  // drainage area passed to the eroder
        std::vector<double> e;     // returned erosion
        std::vector<double> kn;    // K per node
        size_t n_corr = 0;
        bool area_was_negative = false;
        std::unique_ptr<va::ISpl> spl;
    };

    inline SplRun run_spl(const SplCase& sc, vh::Ctx& c)
    {
        SplRun r;
        r.b = build(sc.fc, sc.ops, c);
        auto res = r.b.graph->update_routes(sc.fc.z);
        r.st = r.b.graph->state();
        check_wellformed(c, r.st, sc.fc.m.n);
        r.z = sc.elev_mode == 0 ? res.out : (sc.elev_mode == 1 ? sc.fc.z : sc.other_elev);
        r.area = sc.area_mode == 0 ? r.b.graph->accumulate(2, {}, 1.0, 0) : sc.gen_area;
        // drainage area is a non-negative quantity (statement's domain); meshes with obtuse
        // boundary triangles have negative circumcentric cell areas, and a negative area raised
        // to a fractional exponent is NaN by definition: use magnitudes there
        for (auto& a : r.area)
            if (a < 0)
            {
                a = -a;
                r.area_was_negative = true;
            }
        r.spl = r.b.graph->make_spl(sc.k_is_array, sc.k, sc.karr, sc.m, sc.n, sc.tol, sc.default_tol);
        r.e = r.spl->erode(r.z, r.area, sc.dt);
        r.n_corr = r.spl->n_corr();
        r.kn = sc.k_is_array ? sc.karr : std::vector<double>(sc.fc.m.n, sc.k);
        return r;
    }

    // Second (third ...) step with the SAME eroder object: new field, routes updated on the same
    // graph, optionally K / exponents changed through the setters; fills `r` with the new step.
    inline std::string next_round(SplCase& sc, SplRun& r, vg::Src& s, vh::Ctx& c)
    {
        std::string what;
        size_t n = sc.fc.m.n;
        sc.fc.z = vg::gen_field(s, sc.fc.m, nullptr, true);
        what += " update(z=" + vg::describe_field(sc.fc.z, 0) + ")";
        auto res = r.b.graph->update_routes(sc.fc.z);
        r.st = r.b.graph->state();
        check_wellformed(c, r.st, n);
        if (sc.elev_mode == 2)
            sc.other_elev = vg::gen_field(s, sc.fc.m, nullptr, true);
        r.z = sc.elev_mode == 0 ? res.out : (sc.elev_mode == 1 ? sc.fc.z : sc.other_elev);
        r.area = sc.area_mode == 0 ? r.b.graph->accumulate(2, {}, 1.0, 0) : sc.gen_area;
        for (auto& a : r.area)
            if (a < 0)
                a = -a;
        size_t chg = s.weighted({ 120, 50, 40, 46 });
        if (chg == 1)
        {
            // K: scalar <-> array
            sc.k_is_array = !sc.k_is_array;
            if (sc.k_is_array)
            {
                sc.karr.assign(n, 0.0);
                for (auto& e : sc.karr)
                {
                    uint8_t b = s.u8();
                    e = b < 16 ? 0.0 : sc.k * (0.1 + 2.0 * static_cast<double>(b) / 255.0);
                }
                r.spl->set_k_array(sc.karr);
            }
            else
                r.spl->set_k_scalar(sc.k);
            what += sc.k_is_array ? " set_k_coef(array)" : " set_k_coef(scalar)";
        }
        else if (chg == 2)
        {
            static const double ms[] = { 0.5, 0.0, 0.4, 1.0, 2.0 };
            sc.m = ms[s.u8() % 5];
            r.spl->set_area_exp(sc.m);
            what += " set_area_exp(" + vg::fmt(sc.m) + ")";
        }
        else if (chg == 3 && !sc.pi.final_multi)
        {
            static const double ns[] = { 1.0, 0.5, 0.8, 1.5, 2.0, 3.0, 0.3, 0.99, 1.01, 4.0, 0.9995, 1.0005 };
            sc.n = ns[s.u8() % 12];
            r.spl->set_slope_exp(sc.n);
            what += " set_slope_exp(" + vg::fmt(sc.n) + ")";
        }
        if (s.chance(30))
        {
            // a refused call (erodibility array of the wrong shape) leaves the eroder as it was
            bool threw = false;
            try
            {
                r.spl->set_k_array_bad_shape();
            }
            catch (const std::exception&)
            {
                threw = true;
            }
            if (threw)
                what += " set_k_coef(wrong shape: refused)";
            else
            {
                // accepted: no statement says what it means - set the known erodibility again
                if (sc.k_is_array)
                    r.spl->set_k_array(sc.karr);
                else
                    r.spl->set_k_scalar(sc.k);
                what += " set_k_coef(wrong shape: accepted, K set again)";
            }
        }
        r.kn = sc.k_is_array ? sc.karr : std::vector<double>(n, sc.k);
        if (c.verbose)  // before the call: visible even if it never returns
            std::cout << "NEXT" << what << " erode(z=" << vg::describe_field(r.z, 0) << ")" << std::endl;
        c.desc += " |" + what + " erode";
        r.e = r.spl->erode(r.z, r.area, sc.dt);
        r.n_corr = r.spl->n_corr();
        return "";
    }

    // lowest post-erosion elevation among the receivers of node i
    inline double floor_of(const SplRun& r, size_t i)
    {
        double fl = DBL_MAX;
        for (size_t k = 0; k < r.st.rec_count[i]; ++k)
        {
            size_t j = R(r.st, i, k);
            fl = std::min(fl, r.z[j] - r.e[j]);
        }
        return fl;
    }
    inline bool terminal(const SplRun& r, size_t i)
    {
        return r.st.rec_count[i] == 1 && R(r.st, i, 0) == i;
    }
}
