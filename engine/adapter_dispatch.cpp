// Dispatch from a GridSpec to the translation unit of its concrete grid type.
#include <stdexcept>
#include "adapter.hpp"
namespace va
{
#define VA_DECL(k)                                                                                 \
    std::unique_ptr<IGrid> make_grid_##k(const GridSpec&);                                         \
    std::unique_ptr<IGraph> make_graph_##k(IGrid&, const std::vector<OpSpec>&);                    \
    std::unique_ptr<IGraph> make_graph_static_##k(IGrid&, int);                                    \
    std::unique_ptr<IDiffusion> make_diffusion_##k(                                                \
        IGrid&, bool, double, const std::vector<double>&);
    VA_DECL(0) VA_DECL(1) VA_DECL(2) VA_DECL(3) VA_DECL(4) VA_DECL(5) VA_DECL(6) VA_DECL(7) VA_DECL(8)
#define VA_SWITCH(idx, CALL)                                                                       \
    switch (idx)                                                                                   \
    {                                                                                              \
        case 0: return CALL(0);                                                                    \
        case 1: return CALL(1);                                                                    \
        case 2: return CALL(2);                                                                    \
        case 3: return CALL(3);                                                                    \
        case 4: return CALL(4);                                                                    \
        case 5: return CALL(5);                                                                    \
        case 6: return CALL(6);                                                                    \
        case 7: return CALL(7);                                                                    \
        case 8: return CALL(8);                                                                    \
    }                                                                                              \
    throw std::logic_error("bad grid type index");

    std::unique_ptr<IGrid> make_grid(const GridSpec& sp)
    {
#define C1(k) make_grid_##k(sp)
        VA_SWITCH(sp.type_index(), C1)
    }
    std::unique_ptr<IGraph> make_graph(IGrid& g, const std::vector<OpSpec>& ops)
    {
#define C2(k) make_graph_##k(g, ops)
        VA_SWITCH(g.spec().type_index(), C2)
    }
    std::unique_ptr<IGraph> make_graph_static(IGrid& g, int id)
    {
#define C3(k) make_graph_static_##k(g, id)
        VA_SWITCH(g.spec().type_index(), C3)
    }
    std::unique_ptr<IDiffusion> make_diffusion(IGrid& g,
                                               bool k_is_array,
                                               double k,
                                               const std::vector<double>& karr)
    {
#define C4(k_) make_diffusion_##k_(g, k_is_array, k, karr)
        VA_SWITCH(g.spec().type_index(), C4)
    }
}
