// Constructive generators (byte-source decoders) shared by all properties.
#pragma once
#include <algorithm>
#include <cfloat>
#include <cmath>
#include <sstream>
#include "adapter.hpp"
#include "model_grid.hpp"
#include "src.hpp"

namespace vg
{
    using va::GridSpec;
    using vm::ModelGrid;

    // ---------------------------------------------------------------- grids
    struct GridOpts
    {
        bool raster = true, profile = true, mesh = true;
        size_t min_side = 2, max_side = 12;
        size_t profile_max = 40;
        bool valid_only = true;    // only configurations the constructors accept
        bool allow_looped = true;
        bool overrides = true;
        size_t mesh_max_side = 6;
        bool only_queen = false;  // raster: queen connectivity only (thread-sanitizer build)
        size_t large_side = 0;    // > max_side: ~3% of the rasters/profiles get a side up to this value
    };

    // Per-node byte source: the case's byte buffer for small grids; for large grids (> 600 nodes) a
    // small linear congruential generator seeded from 8 bytes of the buffer, so that a case with
    // thousands of nodes does not need thousands of bytes (still a pure function of the bytes).
    struct NodeBytes
    {
        Src& s;
        bool large;
        uint64_t state = 0;
        NodeBytes(Src& src, size_t n)
            : s(src)
            , large(n > 600)
        {
            if (large)
                state = s.u64() | 1;
        }
        uint8_t u8()
        {
            if (!large)
                return s.u8();
            state = state * 6364136223846793005ULL + 1442695040888963407ULL;
            return static_cast<uint8_t>(state >> 56);
        }
        bool chance(unsigned num)
        {
            return u8() > 255 - num;
        }
    };

    inline double spacing_value(Src& s)
    {
        static const double pal[] = { 1.0, 2.0, 0.5, 3.0, 7.25, 1e-3, 1e3, 0.1 };
        return pal[s.weighted({ 90, 40, 30, 30, 26, 14, 14, 12 })];
    }

    inline uint8_t border_status(Src& s, bool allow_looped)
    {
        // fixed value first (simplest)
        size_t k = s.weighted({ 110, 60, 40, 46 });
        static const uint8_t m[] = { va::ST_FIXED_VALUE, va::ST_CORE, va::ST_FIXED_GRADIENT, va::ST_LOOPED };
        uint8_t r = m[k];
        if (r == va::ST_LOOPED && !allow_looped)
            r = va::ST_CORE;
        return r;
    }

    inline void gen_mesh(Src& s, GridSpec& sp, const GridOpts& o);

    inline GridSpec gen_grid(Src& s, const GridOpts& o)
    {
        GridSpec sp;
        unsigned wr = o.raster ? 150 : 0, wp = o.profile ? 40 : 0, wm = o.mesh ? 66 : 0;
        size_t k = s.weighted({ wr, wp, wm });
        if (wr + wp + wm == 0)
            k = 0;
        // weighted() skips zero-weight entries by construction
        sp.kind = k == 0 ? va::K_RASTER : (k == 1 ? va::K_PROFILE : va::K_TRIMESH);
        if (sp.kind == va::K_TRIMESH)
        {
            gen_mesh(s, sp, o);
            return sp;
        }
        sp.cache = !s.chance(80);
        if (sp.kind == va::K_PROFILE)
        {
            sp.rows = 1;
            size_t big = s.chance(40);
            sp.cols = big ? s.range(2, o.profile_max) : s.range(2, std::min<size_t>(12, o.profile_max));
            if (o.large_side > 0 && s.chance(8))
                sp.cols = s.range(o.profile_max, o.large_side * 8);
            sp.dx = spacing_value(s);
            sp.dy = 1;
            sp.uniform_border_ctor = s.chance(40);
            sp.border[0] = border_status(s, o.allow_looped);
            sp.border[1] = border_status(s, o.allow_looped);
            if (sp.uniform_border_ctor)
                sp.border[1] = sp.border[0];
            if (o.valid_only && ((sp.border[0] == va::ST_LOOPED) != (sp.border[1] == va::ST_LOOPED)))
                sp.border[0] = sp.border[1] = va::ST_LOOPED;
        }
        else
        {
            static const int conn[] = { va::C_QUEEN, va::C_ROOK, va::C_BISHOP };
            sp.connect = conn[s.weighted({ 110, 100, 46 })];
            if (o.only_queen)
                sp.connect = va::C_QUEEN;
            size_t lo = o.min_side, hi = o.max_side;
            auto side = [&]() -> size_t
            {
                // over-sample the minimum sides (2-wide looped axes, tiny grids)
                size_t c = s.weighted({ 150, 50, 56 });
                if (c == 1)
                    return lo;
                if (c == 2)
                    return std::min(hi, lo + 1);
                return s.range(lo, hi);
            };
            sp.rows = side();
            sp.cols = side();
            if (o.large_side > hi && s.chance(8))
            {
                // occasionally a large grid (real elevation models are large; size-dependent
                // code paths: block partitions, scratch-array growth, high basin degrees)
                sp.rows = s.range(hi + 1, o.large_side);
                sp.cols = s.coin() ? s.range(hi + 1, o.large_side) : s.range(lo, hi);
                if (s.coin())
                    std::swap(sp.rows, sp.cols);
            }
            sp.dy = spacing_value(s);
            sp.dx = spacing_value(s);
            sp.uniform_border_ctor = s.chance(30);
            for (int b = 0; b < 4; ++b)
                sp.border[b] = border_status(s, o.allow_looped);
            if (sp.uniform_border_ctor)
                sp.border[1] = sp.border[2] = sp.border[3] = sp.border[0];
            if (o.valid_only)
            {
                if ((sp.border[0] == va::ST_LOOPED) != (sp.border[1] == va::ST_LOOPED))
                    sp.border[0] = sp.border[1] = va::ST_LOOPED;
                if ((sp.border[2] == va::ST_LOOPED) != (sp.border[3] == va::ST_LOOPED))
                    sp.border[2] = sp.border[3] = va::ST_LOOPED;
            }
        }
        sp.from_length = s.chance(20);
        if (o.overrides && s.chance(90))
        {
            size_t cnt = s.range(1, 4);
            for (size_t i = 0; i < cnt; ++i)
            {
                va::Override ov;
                bool bad_range = !o.valid_only && s.chance(30);
                ov.row = sp.kind == va::K_RASTER ? s.range(0, sp.rows - 1 + (bad_range ? 2 : 0)) : 0;
                ov.col = s.range(0, sp.cols - 1 + (bad_range ? 2 : 0));
                static const uint8_t st[] = { va::ST_FIXED_VALUE, va::ST_CORE, va::ST_FIXED_GRADIENT, va::ST_LOOPED };
                ov.status = st[s.weighted({ 120, 60, 50, 26 })];
                if (o.valid_only)
                {
                    if (ov.status == va::ST_LOOPED)
                        ov.status = va::ST_FIXED_GRADIENT;
                    // not over a looped node: a node is looped only on a looped border where no
                    // higher-precedence border meets -> just avoid nodes the model marks looped
                    GridSpec tmp = sp;
                    tmp.overrides.clear();
                    auto m0 = vm::build_model(tmp);
                    size_t idx = sp.kind == va::K_RASTER ? ov.row * sp.cols + ov.col : ov.col;
                    if (m0.status[idx] == va::ST_LOOPED)
                        continue;
                }
                sp.overrides.push_back(ov);
            }
        }
        return sp;
    }

    // ---------------------------------------------------------------- meshes
    inline void gen_mesh(Src& s, GridSpec& sp, const GridOpts& o)
    {
        sp.kind = va::K_TRIMESH;
        sp.cache = false;
        sp.rows = 1;
        size_t shape = s.weighted({ 170, 40, 46 });  // lattice, fan, obtuse strip
        // anisotropy limited to ~100: beyond that triangles are numerical slivers and no
        // area comparison is meaningful (stated domain limit, DESIGN.md C18)
        static const double mpal[] = { 1.0, 2.0, 0.5, 3.0, 7.25, 0.1, 10.0 };
        double sx = mpal[s.weighted({ 100, 30, 30, 30, 26, 20, 20 })], sy = mpal[s.weighted({ 100, 30, 30, 30, 26, 20, 20 })];
        // overall unit of the coordinates (isotropic: angles are unchanged): millimetres to
        // hundreds of kilometres - nothing in the statement depends on the unit (seeded change
        // C18-F: an absolute tolerance on triangle areas)
        static const double unit[] = { 1.0, 1e-3, 1e3, 1e-5, 1e5 };
        double gs = unit[s.weighted({ 196, 16, 16, 14, 14 })];
        sx *= gs;
        sy *= gs;
        if (shape == 0)
        {
            size_t r = s.range(2, o.mesh_max_side), c = s.range(2, o.mesh_max_side);
            bool jitter = s.chance(150);
            for (size_t i = 0; i < r; ++i)
                for (size_t j = 0; j < c; ++j)
                {
                    double jx = 0, jy = 0;
                    if (jitter)
                    {
                        // amplitude 0.2 per coordinate: at 0.25 the three corners of a half cell can
                        // become collinear (a zero-area triangle is not a triangulation; met in a
                        // thorough run with the former amplitude 0.3), 0.2 keeps every height >= 0.14
                        jx = (static_cast<double>(s.u8()) / 255.0 - 0.5) * 0.4;
                        jy = (static_cast<double>(s.u8()) / 255.0 - 0.5) * 0.4;
                    }
                    sp.px.push_back((static_cast<double>(j) + jx) * sx);
                    sp.py.push_back((static_cast<double>(i) + jy) * sy);
                }
            bool holes = s.chance(100);
            for (size_t i = 0; i + 1 < r; ++i)
                for (size_t j = 0; j + 1 < c; ++j)
                {
                    size_t a = i * c + j, b = a + 1, d = a + c, e = d + 1;
                    bool diag = s.coin();
                    std::array<size_t, 3> t1, t2;
                    if (diag)
                    {
                        t1 = { a, b, e };
                        t2 = { a, e, d };
                    }
                    else
                    {
                        t1 = { a, b, d };
                        t2 = { b, e, d };
                    }
                    uint8_t del = holes ? s.u8() : 0;
                    if (!(del >= 200 && del < 228))
                        sp.tris.push_back(t1);
                    if (!(del >= 228))
                        sp.tris.push_back(t2);
                }
        }
        else if (shape == 1)
        {
            // fan: hub 0 with k spokes: degree k <= 20, the configured maximum included (~7 % of the
            // fans; a closed fan of 20 is the only shape whose hub has exactly N neighbours)
            uint8_t kb = s.u8();
            size_t k = kb >= 238 ? 20 : 3 + kb % 17;
            bool closed = s.coin();
            sp.px.push_back(0);
            sp.py.push_back(0);
            for (size_t i = 0; i < k; ++i)
            {
                double ang = (closed ? 6.283185307179586 : 3.0) * static_cast<double>(i) / static_cast<double>(closed ? k : k - 1);
                double rad = 1.0 + static_cast<double>(s.u8() % 4) * 0.25;
                sp.px.push_back(std::cos(ang) * rad * sx);
                sp.py.push_back(std::sin(ang) * rad * sy);
            }
            for (size_t i = 0; i + 1 < k; ++i)
                sp.tris.push_back({ 0, i + 1, i + 2 });
            if (closed && k >= 3)
                sp.tris.push_back({ 0, k, 1 });
        }
        else
        {
            // strip with very obtuse triangles: two rows, the upper one shifted far
            size_t k = s.range(2, 8);
            double shift = 1.5 + static_cast<double>(s.u8() % 8);
            double h = 0.2 + static_cast<double>(s.u8() % 5) * 0.2;
            for (size_t j = 0; j < k; ++j)
            {
                sp.px.push_back(static_cast<double>(j) * sx);
                sp.py.push_back(0);
            }
            for (size_t j = 0; j < k; ++j)
            {
                sp.px.push_back((static_cast<double>(j) + shift) * sx);
                sp.py.push_back(h * sy);
            }
            for (size_t j = 0; j + 1 < k; ++j)
            {
                sp.tris.push_back({ j, j + 1, k + j });
                sp.tris.push_back({ j + 1, k + j + 1, k + j });
            }
        }
        // isolated extra points
        if (s.chance(50))
        {
            size_t extra = s.range(1, 3);
            for (size_t i = 0; i < extra; ++i)
            {
                sp.px.push_back((-5.0 - static_cast<double>(i)) * gs);
                sp.py.push_back(-3.0 * gs);
            }
        }
        // independent vertex permutation inside each triangle
        if (s.chance(170))
            for (auto& t : sp.tris)
            {
                size_t p = s.u8() % 6;
                std::array<size_t, 3> q = t;
                static const int perm[6][3] = { { 0, 1, 2 }, { 1, 2, 0 }, { 2, 0, 1 }, { 0, 2, 1 }, { 2, 1, 0 }, { 1, 0, 2 } };
                for (int k = 0; k < 3; ++k)
                    t[k] = q[perm[p][k]];
            }
        sp.cols = sp.px.size();
        // status
        size_t mode = s.weighted({ 150, 50, 56 });
        sp.mesh_status_mode = static_cast<int>(mode);
        size_t n = sp.px.size();
        if (mode == 1)
        {
            size_t cnt = s.range(o.valid_only ? 1 : 0, 4);
            for (size_t i = 0; i < cnt; ++i)
            {
                va::Override ov;
                ov.row = 0;
                bool bad = !o.valid_only && s.chance(30);
                ov.col = s.range(0, n - 1 + (bad ? 2 : 0));
                static const uint8_t st[] = { va::ST_FIXED_VALUE, va::ST_CORE, va::ST_FIXED_GRADIENT, va::ST_LOOPED };
                ov.status = st[s.weighted({ 150, 40, 40, 26 })];
                if (o.valid_only && ov.status == va::ST_LOOPED)
                    ov.status = va::ST_FIXED_VALUE;
                sp.overrides.push_back(ov);
            }
        }
        else if (mode == 2)
        {
            size_t len = n;
            if (!o.valid_only && s.chance(30))
                len = n + 1 - 2 * (s.u8() & 1);
            for (size_t i = 0; i < len; ++i)
            {
                static const uint8_t st[] = { va::ST_CORE, va::ST_FIXED_VALUE, va::ST_FIXED_GRADIENT };
                sp.mesh_status_arr.push_back(st[s.weighted({ 150, 70, 36 })]);
            }
        }
    }

    // ---------------------------------------------------------------- fields
    inline double level_value(Src& s, int family)
    {
        // family 0: ordinary ; 1: tiny (around zero, subnormal) ; 2: huge ; 3: mixed
        static const double ordinary[] = { 0.0, 1.0, 2.0, -1.0, 0.5, 3.0, 1.0 + DBL_EPSILON, 10.0, -2.5, 100.0, 1e-3, 0.1 };
        static const double tiny[] = { 0.0, 5e-324, 1e-310, DBL_MIN, -5e-324, 1e-323, 2 * DBL_MIN, -1e-310, -0.0 };
        static const double huge[] = { 0.0, 1e150, -1e150, 1e100, 5e149, -5e149, 1e149 };
        switch (family)
        {
            case 0:
                return ordinary[s.u8() % 12];
            case 1:
                return tiny[s.u8() % 9];
            case 2:
                return huge[s.u8() % 7];
            case 4:
            {
                // near the top of the double range, all of one sign: differences stay finite but
                // products such as drop x distance or slope^p overflow
                static const double giant[] = { 1e307, 2e307, 5e306, 8e307, 1.5e307, 1e306, 3e307 };
                return giant[s.u8() % 7];
            }
            default:
            {
                size_t f = s.u8() % 3;
                return level_value(s, static_cast<int>(f));
            }
        }
    }

    inline double raw_double(Src& s)
    {
        uint64_t b = s.u64();
        double d;
        std::memcpy(&d, &b, 8);
        if (!std::isfinite(d))
            d = 0;
        if (std::fabs(d) > 1e150)
            d = std::copysign(1e150, d);
        return d;
    }

    struct FieldInfo
    {
        int cls = 0;
        int family = 0;
        std::string name;
    };

    // Elevation / source field over the nodes of a model grid.
    inline std::vector<double> gen_field(Src& s, const ModelGrid& m, FieldInfo* info = nullptr, bool ordinary_only = false)
    {
        size_t n = m.n;
        std::vector<double> z(n, 0.0);
        size_t cls = s.weighted({ 20, 60, 30, 40, 30, 30, 20, 26 });
        int fam = ordinary_only ? 0 : static_cast<int>(s.weighted({ 146, 48, 18, 34, 10 }));
        if (fam == 4)
            cls = 1 + (cls & 1);  // gigantic values: palette or scaled integer noise only
        if (ordinary_only && cls == 6)
            cls = 2;  // no raw bit patterns (magnitudes up to 1e150) when ordinary values are asked for
        static const char* names[] = { "const", "palette", "int-noise", "tilt+pits", "rings", "smooth+noise", "raw", "adjacent-depressions" };
        if (info)
        {
            info->cls = static_cast<int>(cls);
            info->family = fam;
            info->name = names[cls];
        }
        NodeBytes nbts(s, n);
        double xmax = 0, ymax = 0;
        for (size_t i = 0; i < n; ++i)
        {
            xmax = std::max(xmax, std::fabs(m.x[i]));
            ymax = std::max(ymax, std::fabs(m.y[i]));
        }
        if (xmax == 0)
            xmax = 1;
        if (ymax == 0)
            ymax = 1;
        switch (cls)
        {
            case 0:
            {
                double v = level_value(s, fam);
                for (auto& e : z)
                    e = v;
                break;
            }
            case 1:
            {
                static const size_t ks[] = { 2, 3, 4, 8 };
                size_t k = ks[s.u8() % 4];
                double pal[8];
                for (size_t i = 0; i < k; ++i)
                    pal[i] = level_value(s, fam);
                for (auto& e : z)
                    e = pal[nbts.u8() % k];
                break;
            }
            case 2:
            {
                double scale = fam == 1 ? 5e-324 : (fam == 2 ? 1e148 : (fam == 4 ? 5e306 : 1.0));
                size_t amp = 1 + s.u8() % 16;
                for (auto& e : z)
                    e = static_cast<double>(nbts.u8() % amp) * scale;
                break;
            }
            case 3:
            {
                // tilted plane towards one side, with scattered single-node pits
                double ax = (static_cast<double>(s.u8() % 7) - 3.0), ay = (static_cast<double>(s.u8() % 7) - 3.0);
                if (ax == 0 && ay == 0)
                    ax = 1;
                size_t pit_every = 2 + s.u8() % 6;
                double depth = 0.5 + static_cast<double>(s.u8() % 8);
                bool hub = s.coin();
                for (size_t i = 0; i < n; ++i)
                {
                    z[i] = 10.0 + ax * m.x[i] / xmax * 5 + ay * m.y[i] / ymax * 5;
                    if (hub)
                        z[i] = 20.0;  // flat plateau: every pit borders the same big basin
                }
                size_t off = s.u8();
                for (size_t i = 0; i < n; ++i)
                    if ((i + off) % pit_every == 0)
                        z[i] -= depth + static_cast<double>((i * 7) % 3) * ((nbts.u8() & 1) ? 0.25 : 0.0);
                if (fam == 1)
                    for (auto& e : z)
                        e *= 5e-324;
                if (fam == 2)
                    for (auto& e : z)
                        e *= 1e147;
                break;
            }
            case 4:
            {
                // concentric nested depressions around a centre node
                size_t c0 = s.range(0, n - 1);
                double period = 1.0 + static_cast<double>(s.u8() % 4);
                for (size_t i = 0; i < n; ++i)
                {
                    double dx = (m.x[i] - m.x[c0]) / xmax * 6, dy = (m.y[i] - m.y[c0]) / ymax * 6;
                    double r = std::sqrt(dx * dx + dy * dy);
                    z[i] = std::floor(r) * 0.5 + ((static_cast<long>(std::floor(r / period)) % 2) ? 3.0 : 0.0);
                }
                break;
            }
            case 5:
            {
                double fx = 1 + s.u8() % 3, fy = 1 + s.u8() % 3;
                double noise = static_cast<double>(s.u8() % 4) * 0.1;
                for (size_t i = 0; i < n; ++i)
                    z[i] = std::sin(fx * m.x[i] / xmax * 3.1) * std::cos(fy * m.y[i] / ymax * 3.1) + noise * (static_cast<double>(nbts.u8()) / 255.0);
                if (fam == 2)
                    for (auto& e : z)
                        e *= 1e149;
                break;
            }
            case 6:
            {
                if (nbts.large)
                {
                    // raw bit patterns need 8 bytes per node: large grids get integer noise instead
                    for (auto& e : z)
                        e = static_cast<double>(nbts.u8() % 7);
                }
                else
                    for (auto& e : z)
                        e = raw_double(s);
                break;
            }
            default:
            {
                // two or three adjacent depressions sharing saddles, on a slope
                size_t k = 2 + s.u8() % 2;
                size_t ctr[3];
                for (size_t j = 0; j < k; ++j)
                    ctr[j] = s.range(0, n - 1);
                for (size_t i = 0; i < n; ++i)
                {
                    double best = 1e9;
                    for (size_t j = 0; j < k; ++j)
                    {
                        double dx = (m.x[i] - m.x[ctr[j]]) / xmax * 4, dy = (m.y[i] - m.y[ctr[j]]) / ymax * 4;
                        best = std::min(best, std::floor(std::sqrt(dx * dx + dy * dy) * 2) / 2);
                    }
                    z[i] = std::min(best, 2.0);
                }
                break;
            }
        }
        return z;
    }

    // ---------------------------------------------------------------- mask / base levels
    struct MaskInfo
    {
        int cls = 0;  // 0 none 1 sparse 2 block 3 ring 4 explicit-empty
    };

    inline std::vector<uint8_t> gen_mask(Src& s, const ModelGrid& m, MaskInfo* info = nullptr)
    {
        size_t n = m.n;
        size_t cls = s.weighted({ 128, 50, 30, 36, 12 });
        if (info)
            info->cls = static_cast<int>(cls);
        if (cls == 0)
            return {};
        std::vector<uint8_t> mask(n, 0);
        if (cls == 1)
        {
            unsigned dens = 20 + s.u8() % 60;
            NodeBytes nb2(s, n);
            for (auto& e : mask)
                e = nb2.chance(dens);
        }
        else if (cls == 2 || cls == 3)
        {
            double x0 = m.x[s.range(0, n - 1)], y0 = m.y[s.range(0, n - 1)];
            double x1 = m.x[s.range(0, n - 1)], y1 = m.y[s.range(0, n - 1)];
            if (x0 > x1)
                std::swap(x0, x1);
            if (y0 > y1)
                std::swap(y0, y1);
            for (size_t i = 0; i < n; ++i)
            {
                bool in = m.x[i] >= x0 && m.x[i] <= x1 && m.y[i] >= y0 && m.y[i] <= y1;
                bool edge = in && (m.x[i] == x0 || m.x[i] == x1 || m.y[i] == y0 || m.y[i] == y1);
                mask[i] = cls == 2 ? in : edge;
            }
        }
        size_t cnt = 0;
        for (auto e : mask)
            cnt += e;
        if (cnt == n)
            mask[0] = 0;
        return mask;
    }

    // connected to a base level through unmasked model neighbours
    inline std::vector<uint8_t> reach_from(const ModelGrid& m, const std::vector<uint8_t>& mask, const std::vector<size_t>& bl)
    {
        std::vector<uint8_t> reach(m.n, 0);
        std::vector<size_t> st;
        for (auto b : bl)
            if (mask.empty() || !mask[b])
            {
                if (!reach[b])
                    st.push_back(b);
                reach[b] = 1;
            }
        while (!st.empty())
        {
            size_t i = st.back();
            st.pop_back();
            for (auto& nb : m.nb[i])
                if (!reach[nb.idx] && (mask.empty() || !mask[nb.idx]))
                {
                    reach[nb.idx] = 1;
                    st.push_back(nb.idx);
                }
        }
        return reach;
    }

    struct BaseInfo
    {
        int cls = 0;  // 0 default 1 random subset 2 single 3 all 4 interior
        bool is_explicit = false;
        size_t masked_defaults_removed = 0;
        bool has_masked = false;  // the set holds masked nodes (they count for nothing)
    };

    // Base-level set passed to the graph.  It always holds at least one UNMASKED node; it may also
    // hold masked nodes (a mask covering part of a fixed-value border is ordinary use): masked nodes
    // are "not included in the flow graph" (documentation), so a masked base level counts for
    // nothing in the models.  `every_component`: add one unmasked base level to each unmasked
    // component that has none.
    inline std::vector<size_t> gen_base_levels(Src& s, const ModelGrid& m, const std::vector<uint8_t>& mask, bool every_component, BaseInfo* info = nullptr)
    {
        size_t n = m.n;
        auto masked = [&](size_t i) { return !mask.empty() && mask[i]; };
        std::vector<size_t> bl;
        size_t cls = s.weighted({ 120, 60, 30, 10, 36 });
        BaseInfo bi;
        bi.cls = static_cast<int>(cls);
        bool allow_masked = !mask.empty() && s.chance(128);
        if (cls == 0)
        {
            // constructor default: every fixed-value node, masked or not
            for (size_t i = 0; i < n; ++i)
                if (m.status[i] == va::ST_FIXED_VALUE)
                {
                    if (masked(i))
                        ++bi.masked_defaults_removed;  // (kept in the set; counted)
                    bl.push_back(i);
                }
        }
        else
        {
            bi.is_explicit = true;
            if (cls == 1)
            {
                unsigned dens = 10 + s.u8() % 80;
                NodeBytes nb3(s, n);
                for (size_t i = 0; i < n; ++i)
                    if ((allow_masked || !masked(i)) && nb3.chance(dens))
                        bl.push_back(i);
            }
            else if (cls == 2)
            {
                size_t i = s.range(0, n - 1);
                if (!masked(i))
                    bl.push_back(i);
            }
            else if (cls == 3)
            {
                for (size_t i = 0; i < n; ++i)
                    if (allow_masked || !masked(i))
                        bl.push_back(i);
            }
            else
            {
                // interior nodes (not on the structured border / not mesh boundary)
                size_t k = 1 + s.u8() % 3;
                for (size_t j = 0; j < k; ++j)
                {
                    size_t i = s.range(0, n - 1);
                    if (!masked(i) && m.status[i] == va::ST_CORE && std::find(bl.begin(), bl.end(), i) == bl.end())
                        bl.push_back(i);
                }
            }
        }
        auto unmasked_count = [&]()
        {
            size_t k = 0;
            for (auto b : bl)
                if (!masked(b))
                    ++k;
            return k;
        };
        if (unmasked_count() == 0)
        {
            bi.is_explicit = true;
            for (size_t i = 0; i < n; ++i)
                if (!masked(i))
                {
                    bl.push_back(i);
                    break;
                }
        }
        if (every_component)
        {
            auto reach = reach_from(m, mask, bl);
            for (size_t i = 0; i < n; ++i)
                if (!masked(i) && !reach[i])
                {
                    bl.push_back(i);
                    bi.is_explicit = true;
                    reach = reach_from(m, mask, bl);
                }
        }
        std::sort(bl.begin(), bl.end());
        bl.erase(std::unique(bl.begin(), bl.end()), bl.end());
        for (auto b : bl)
            if (masked(b))
                bi.has_masked = true;
        if (info)
            *info = bi;
        return bl;
    }

    // ---------------------------------------------------------------- operator programs
    using va::OpSpec;

    inline OpSpec op_single(int threads = 0, bool dflt = false)
    {
        OpSpec o;
        o.kind = va::OP_SINGLE;
        o.threads = threads;
        o.default_ctor = dflt;
        return o;
    }
    inline OpSpec op_multi(double p)
    {
        OpSpec o;
        o.kind = va::OP_MULTI;
        o.p = p;
        return o;
    }
    inline OpSpec op_pflood()
    {
        OpSpec o;
        o.kind = va::OP_PFLOOD;
        return o;
    }
    inline OpSpec op_mst(int m, int r)
    {
        OpSpec o;
        o.kind = va::OP_MST;
        o.mst = m;
        o.route = r;
        return o;
    }
    inline OpSpec op_snap(const std::string& name, bool g, bool e)
    {
        OpSpec o;
        o.kind = va::OP_SNAPSHOT;
        o.name = name;
        o.save_graph = g;
        o.save_elev = e;
        return o;
    }

    inline double slope_exp_value(Src& s)
    {
        // "every slope exponent >= 0": large exponents too (with spacings far from 1, slope^p leaves
        // the double range unless slopes are taken relative to the steepest one: seeded changes
        // C03-F / C05-E need p >= ~100 at spacing 1e3 or 1e-3, p >= ~2200 with diagonal steepest descent)
        static const double p[] = { 1.0, 0.0, 0.5, 1.1, 1.5, 2.0, 5.0, 10.0, 40.0, 150.0, 5000.0 };
        return p[s.weighted({ 70, 30, 30, 30, 20, 30, 12, 12, 8, 8, 6 })];
    }

    inline std::string describe(const OpSpec& o)
    {
        std::ostringstream os;
        switch (o.kind)
        {
            case va::OP_SINGLE:
                os << "single(" << (o.default_ctor ? std::string("dflt") : std::to_string(o.threads)) << ")";
                break;
            case va::OP_MULTI:
                os << "multi(" << fmt(o.p) << ")";
                break;
            case va::OP_PFLOOD:
                os << "pflood";
                break;
            case va::OP_MST:
                os << "mst(" << (o.mst == va::MST_KRUSKAL ? "kruskal" : "boruvka") << "," << (o.route == va::ROUTE_BASIC ? "basic" : "carve") << ")";
                break;
            default:
                os << "snap(" << o.name << (o.save_graph ? ",g" : "") << (o.save_elev ? ",e" : "") << ")";
        }
        return os.str();
    }
    inline std::string describe(const std::vector<OpSpec>& ops)
    {
        std::string r = "[";
        for (size_t i = 0; i < ops.size(); ++i)
            r += (i ? " " : "") + describe(ops[i]);
        return r + "]";
    }

    // Model of the operator-sequence rules (documentation: flow_operator.hpp comments and
    // guide_flow.md).  Independent of the library's bookkeeping.
    struct ProgModel
    {
        bool accepted = true;
        std::string reject_reason;
        bool out_single = false;
        bool all_single = true;
        bool elevation_updated = false;
        std::vector<std::string> graph_keys, elev_keys;
        std::vector<bool> snap_single;  // direction at each graph snapshot
    };
    inline ProgModel model_program(const std::vector<OpSpec>& ops)
    {
        ProgModel pm;
        int dir = 0;  // 0 undefined 1 single 2 multi
        bool graph_updated = false;
        for (auto& o : ops)
        {
            switch (o.kind)
            {
                case va::OP_SINGLE:
                    dir = 1;
                    graph_updated = true;
                    break;
                case va::OP_MULTI:
                    dir = 2;
                    graph_updated = true;
                    pm.all_single = false;
                    break;
                case va::OP_PFLOOD:
                    pm.elevation_updated = true;
                    break;
                case va::OP_MST:
                    if (dir != 1 && pm.accepted)
                    {
                        pm.accepted = false;
                        pm.reject_reason = "mst needs single-direction input";
                    }
                    dir = 1;
                    graph_updated = true;
                    pm.elevation_updated = true;
                    break;
                default:
                    if (o.save_graph)
                    {
                        if (dir == 0 && pm.accepted)
                        {
                            pm.accepted = false;
                            pm.reject_reason = "graph snapshot before any router";
                        }
                        pm.graph_keys.push_back(o.name);
                        pm.snap_single.push_back(dir == 1);
                    }
                    if (o.save_elev)
                        pm.elev_keys.push_back(o.name);
            }
        }
        if (pm.accepted && (!graph_updated || dir == 0))
        {
            pm.accepted = false;
            pm.reject_reason = "no operator updates the graph / defines a direction";
        }
        pm.out_single = dir == 1;
        return pm;
    }

    inline std::string describe_field(const std::vector<double>& z, size_t cols)
    {
        std::ostringstream o;
        o << "[";
        for (size_t i = 0; i < z.size(); ++i)
        {
            if (i)
                o << ((cols > 0 && i % cols == 0) ? " | " : " ");
            o << fmt(z[i]);
        }
        o << "]";
        return o.str();
    }
    inline std::string describe_set(const std::vector<size_t>& v)
    {
        std::ostringstream o;
        o << "{";
        for (size_t i = 0; i < v.size(); ++i)
            o << (i ? "," : "") << v[i];
        o << "}";
        return o.str();
    }
    inline std::string describe_mask(const std::vector<uint8_t>& m)
    {
        if (m.empty())
            return "none";
        std::string r;
        for (auto e : m)
            r += e ? 'X' : '.';
        return r;
    }
}
