// Type-erased facade over the fastscapelib public API.
//
// Property translation units include only this header (plain data, virtual
// calls); the template-heavy library code is instantiated once per concrete
// grid type in adapter_impl.hpp / adapter_<k>.cpp.  Every method forwards to
// the real public API of /repo/include -- nothing is re-implemented here.
#pragma once
#include <array>
#include <cstddef>
#include <cstdint>
#include <memory>
#include <stdexcept>
#include <string>
#include <utility>
#include <vector>

namespace va
{
    // a property violation observed inside the adapter (two ways of doing the same thing disagree)
    struct HarnessObservation : std::runtime_error
    {
        using std::runtime_error::runtime_error;
    };
    enum : uint8_t
    {
        ST_CORE = 0,
        ST_FIXED_VALUE = 1,
        ST_FIXED_GRADIENT = 2,
        ST_LOOPED = 3
    };

    enum
    {
        K_RASTER = 0,
        K_PROFILE = 1,
        K_TRIMESH = 2
    };
    enum
    {
        C_ROOK = 0,
        C_QUEEN = 1,
        C_BISHOP = 2
    };

    struct Override
    {
        size_t row, col;  // profile: col = index, row = 0 ; mesh: col = index
        uint8_t status;
    };

    struct GridSpec
    {
        int kind = K_RASTER;
        int connect = C_QUEEN;
        bool cache = true;
        size_t rows = 1, cols = 2;  // profile: cols = size
        double dy = 1, dx = 1;      // profile: dx = spacing
        // raster: left,right,top,bottom ; profile: left,right
        uint8_t border[4] = { ST_FIXED_VALUE, ST_FIXED_VALUE, ST_FIXED_VALUE, ST_FIXED_VALUE };
        bool uniform_border_ctor = false;  // use the single-status constructor
        std::vector<Override> overrides;
        bool from_length = false;  // build through the from_length factory
        // mesh
        std::vector<double> px, py;
        std::vector<std::array<size_t, 3>> tris;
        int mesh_status_mode = 0;  // 0 none (default boundary detection), 1 map, 2 array
        std::vector<uint8_t> mesh_status_arr;

        size_t size() const
        {
            if (kind == K_RASTER)
                return rows * cols;
            if (kind == K_PROFILE)
                return cols;
            return px.size();
        }
        // index of the concrete grid type (0..8), see adapter_impl.hpp
        int type_index() const
        {
            if (kind == K_PROFILE)
                return cache ? 0 : 1;
            if (kind == K_RASTER)
                return 2 + connect * 2 + (cache ? 0 : 1);
            return 8;
        }
    };

    struct Nb
    {
        size_t idx;
        double dist;
        uint8_t status;
    };
    struct RNb
    {
        size_t flat, row, col;
        double dist;
        uint8_t status;
    };

    struct IGrid
    {
        virtual ~IGrid() {}
        virtual const GridSpec& spec() const = 0;
        virtual size_t size() const = 0;
        virtual std::vector<size_t> shape() const = 0;
        virtual int n_neighbors_max() const = 0;
        virtual uint8_t status(size_t i) const = 0;
        virtual std::vector<uint8_t> status_array() const = 0;
        virtual double area(size_t i) const = 0;
        virtual std::vector<double> areas() const = 0;
        virtual std::vector<double> spacing() const = 0;  // structured only
        virtual std::vector<double> length() const = 0;   // structured only
        virtual size_t nb_count(size_t i) const = 0;
        virtual std::vector<size_t> nb_indices(size_t i) = 0;
        // in-place overloads write into a buffer that persists between calls
        virtual std::vector<size_t> nb_indices_inplace(size_t i) = 0;
        virtual std::vector<double> nb_distances(size_t i) const = 0;
        virtual std::vector<Nb> nbs(size_t i) = 0;
        virtual std::vector<Nb> nbs_inplace(size_t i) = 0;
        // neighbors(nb[k].idx, nb) after nb = neighbors(i): the index aliases the output vector
        virtual std::vector<Nb> nbs_walk(size_t i, size_t k) = 0;
        // raster only (others: throw std::logic_error)
        virtual std::vector<std::pair<size_t, size_t>> nb_indices_rc(size_t r, size_t c, bool inplace)
            = 0;
        virtual std::vector<RNb> nbs_rc(size_t r, size_t c, bool inplace) = 0;
        virtual int node_code(size_t i) const = 0;
        // iteration; filter -1 = none, 0..3 = status
        virtual std::vector<size_t> iter(int filter, bool reverse) const = 0;
        virtual size_t cache_used() = 0;
        virtual size_t cache_size() = 0;
    };

    // throws whatever the library constructor throws
    std::unique_ptr<IGrid> make_grid(const GridSpec& spec);

    enum
    {
        OP_SINGLE = 0,
        OP_MULTI = 1,
        OP_PFLOOD = 2,
        OP_MST = 3,
        OP_SNAPSHOT = 4
    };
    enum
    {
        MST_KRUSKAL = 0,
        MST_BORUVKA = 1
    };
    enum
    {
        ROUTE_BASIC = 0,
        ROUTE_CARVE = 1
    };

    struct OpSpec
    {
        int kind = OP_SINGLE;
        int threads = 0;            // single router
        bool default_ctor = false;  // single router / mst: use the default constructor
        double p = 1.0;             // multi router
        int mst = MST_KRUSKAL;
        int route = ROUTE_CARVE;
        std::string name;  // snapshot
        bool save_graph = true, save_elev = false;
    };

    struct GraphState
    {
        size_t n = 0, rcols = 0, dcols = 0;
        std::vector<size_t> rec, rec_count;
        std::vector<double> dist, weight;
        std::vector<size_t> don, don_count;
        std::vector<size_t> dfs, bfs, levels;
        std::vector<size_t> storage_indices, any_levels;
    };

    struct UpdateResult
    {
        std::vector<double> out;          // returned elevation
        std::vector<double> input_after;  // caller's array after the call
        bool same_object = false;         // returned reference is the caller's array
    };

    struct BasinEdge
    {
        size_t link[2];
        size_t pass[2];
        double pass_elevation, pass_length;
    };

    struct IBasinGraph
    {
        virtual ~IBasinGraph() {}
        virtual void update_routes(const std::vector<double>& z) = 0;
        virtual size_t basins_count() const = 0;
        virtual std::vector<size_t> outlets() const = 0;
        virtual std::vector<BasinEdge> edges() const = 0;
        virtual std::vector<size_t> tree() const = 0;
    };

    struct ISpl
    {
        virtual ~ISpl() {}
        virtual std::vector<double> erode(const std::vector<double>& z,
                                          const std::vector<double>& area,
                                          double dt)
            = 0;
        virtual size_t n_corr() = 0;
        virtual void set_slope_exp(double n) = 0;
        virtual void set_k_array_bad_shape() = 0;  // must throw
        virtual void set_area_exp(double m) = 0;
        virtual void set_k_scalar(double k) = 0;
        virtual void set_k_array(const std::vector<double>& k) = 0;
        virtual std::vector<double> k_coef() = 0;
        virtual double slope_exp() = 0;
        virtual double area_exp() = 0;
        virtual double tolerance() = 0;
    };

    struct IDiffusion
    {
        virtual ~IDiffusion() {}
        virtual std::vector<double> erode(const std::vector<double>& z, double dt) = 0;
        // next step on the array (reference) that the previous erode() call returned
        virtual std::vector<double> erode_last(double dt) = 0;
        virtual void set_k_array_bad_shape() = 0;  // must throw
        virtual void set_k_scalar(double k) = 0;
        virtual void set_k_array(const std::vector<double>& k) = 0;
        virtual std::vector<double> k_coef() = 0;
    };

    enum
    {
        KERNEL_ANY = 0,               // out[i] = 2*in[i] + 1
        KERNEL_BREADTH_UPSTREAM = 1,  // out[i] = in[i] + sum_r w_r out[rec_r]
        KERNEL_DEPTH_UPSTREAM = 2     // same formula, depth-first order (sequential only)
    };

    struct IGraph
    {
        virtual ~IGraph() {}
        virtual UpdateResult update_routes(const std::vector<double>& z) = 0;
        virtual void set_mask(const std::vector<uint8_t>& m) = 0;
        virtual void set_mask_bad_shape() = 0;  // must throw
        virtual std::vector<uint8_t> mask() const = 0;
        virtual void set_base_levels(const std::vector<size_t>& b) = 0;
        virtual std::vector<size_t> base_levels() const = 0;
        virtual GraphState state() const = 0;
        virtual bool single_flow() const = 0;
        virtual bool impl_single_flow() const = 0;
        virtual size_t size() const = 0;
        virtual std::vector<size_t> grid_shape() const = 0;
        virtual std::vector<std::string> op_names() const = 0;
        virtual std::vector<std::string> graph_snapshot_keys() const = 0;
        virtual std::vector<std::string> elevation_snapshot_keys() const = 0;
        virtual IGraph& graph_snapshot(const std::string& name) = 0;
        virtual std::vector<double> elevation_snapshot(const std::string& name) const = 0;
        // accumulate overloads: 0 returning(array) 1 in-place(array) 2 returning(scalar)
        // 3 in-place(scalar); in-place overloads receive a buffer filled with `dirty`
        virtual std::vector<double> accumulate(int overload,
                                               const std::vector<double>& src,
                                               double scalar,
                                               double dirty)
            = 0;
        virtual std::vector<size_t> basins() = 0;
        virtual std::vector<size_t> outlets() const = 0;
        virtual std::vector<size_t> pits() = 0;
        // change writable operator parameters (kind must match the operator at that index)
        virtual void set_op_param(size_t op_index, const OpSpec& p) = 0;
        virtual std::vector<double> apply_kernel(int kind,
                                                 int n_threads,
                                                 int min_block_size,
                                                 int min_level_size,
                                                 const std::vector<double>& in)
            = 0;
        virtual std::unique_ptr<IBasinGraph> make_basin_graph(int mst) = 0;
        virtual std::unique_ptr<ISpl> make_spl(bool k_is_array,
                                               double k,
                                               const std::vector<double>& karr,
                                               double m,
                                               double n,
                                               double tol,
                                               bool default_tol)
            = 0;
    };

    // throws whatever the library throws (std::invalid_argument for rejected programs)
    std::unique_ptr<IGraph> make_graph(IGrid& grid, const std::vector<OpSpec>& ops);
    // variadic-constructor path for a few fixed programs (index into a fixed list), to
    // check that the runtime factory and the documented constructor behave alike
    std::unique_ptr<IGraph> make_graph_static(IGrid& grid, int program_id);
    int n_static_programs();
    std::vector<OpSpec> static_program(int program_id);

    std::unique_ptr<IDiffusion> make_diffusion(IGrid& grid,
                                               bool k_is_array,
                                               double k,
                                               const std::vector<double>& karr);
}
