// Reference model of grids, written from the documentation (status rules,
// connectivity, spacing) and sharing no code with the library.
#pragma once
#include <algorithm>
#include <cmath>
#include <map>
#include <set>
#include <sstream>
#include <string>
#include <vector>
#include "adapter.hpp"
#include "src.hpp"

namespace vm
{
    using va::GridSpec;

    struct MNb
    {
        size_t idx;
        double dist;
        int dr = 0, dc = 0;  // structured: step taken
    };

    struct ModelGrid
    {
        GridSpec spec;
        bool ctor_throws = false;
        std::string throw_reason;
        size_t n = 0;
        std::vector<uint8_t> status;
        std::vector<std::vector<MNb>> nb;  // multiset of neighbours (with multiplicity)
        std::vector<double> x, y;          // node coordinates (for field generators)
        std::vector<long double> area;     // model cell areas
        std::vector<long double> area_mag; // mesh: sum of |partial terms| (conditioning of the area)
        double total_tri_area = 0, min_sin = 1;  // mesh only
        bool mesh_has_obtuse = false, mesh_has_hole = false;
        std::vector<uint8_t> mesh_boundary;  // mesh: node on an edge seen in exactly one triangle
        bool hloop = false, vloop = false;

        size_t rows() const
        {
            return spec.kind == va::K_RASTER ? spec.rows : 1;
        }
        size_t cols() const
        {
            return spec.kind == va::K_TRIMESH ? n : spec.cols;
        }
    };

    inline int prio(uint8_t s)
    {
        switch (s)
        {
            case va::ST_FIXED_VALUE:
                return 3;
            case va::ST_FIXED_GRADIENT:
                return 2;
            case va::ST_LOOPED:
                return 1;
            default:
                return 0;
        }
    }

    inline long double tri_area2(long double ax,
                                 long double ay,
                                 long double bx,
                                 long double by,
                                 long double cx,
                                 long double cy)
    {
        return (bx - ax) * (cy - ay) - (cx - ax) * (by - ay);
    }

    inline ModelGrid build_model(const GridSpec& sp_in)
    {
        GridSpec sp = sp_in;
        if (sp.from_length && sp.kind != va::K_TRIMESH)
        {
            // the factory receives a total length and divides it by (n - 1)
            if (sp.kind == va::K_RASTER)
                sp.dy = (static_cast<double>(sp.rows - 1) * sp.dy) / (static_cast<double>(sp.rows) - 1);
            sp.dx = (static_cast<double>(sp.cols - 1) * sp.dx) / (static_cast<double>(sp.cols) - 1);
        }
        ModelGrid m;
        m.spec = sp_in;
        m.n = sp.size();
        m.status.assign(m.n, va::ST_CORE);
        m.nb.assign(m.n, {});
        m.x.assign(m.n, 0);
        m.y.assign(m.n, 0);
        m.area.assign(m.n, 0);
        m.area_mag.assign(m.n, 0);
        auto fail = [&](const std::string& why)
        {
            if (!m.ctor_throws)
            {
                m.ctor_throws = true;
                m.throw_reason = why;
            }
        };

        if (sp.kind == va::K_PROFILE)
        {
            uint8_t l = sp.border[0], r = sp.uniform_border_ctor ? sp.border[0] : sp.border[1];
            if ((l == va::ST_LOOPED) != (r == va::ST_LOOPED))
                fail("asymmetric looped");
            m.hloop = (l == va::ST_LOOPED && r == va::ST_LOOPED);
            m.status[0] = l;
            m.status[m.n - 1] = r;  // right assigned last (size >= 2 anyway)
            // overrides: last duplicate wins, then key order
            std::map<size_t, uint8_t> ov;
            for (auto& o : sp.overrides)
                ov[o.col] = o.status;
            for (auto& [idx, st] : ov)
            {
                if (m.ctor_throws)
                    break;
                if (st == va::ST_LOOPED)
                    fail("looped in override map");
                else if (idx >= m.n)
                    fail("override out of range");
                else if (m.status[idx] == va::ST_LOOPED)
                    fail("override over looped node");
                else
                    m.status[idx] = st;
            }
            for (size_t i = 0; i < m.n; ++i)
            {
                m.x[i] = static_cast<double>(i) * sp.dx;
                m.area[i] = sp.dx;
                for (int d : { -1, 1 })
                {
                    long j = static_cast<long>(i) + d;
                    if (j < 0 || j >= static_cast<long>(m.n))
                    {
                        if (!m.hloop)
                            continue;
                        j = (j + static_cast<long>(m.n)) % static_cast<long>(m.n);
                    }
                    m.nb[i].push_back({ static_cast<size_t>(j), std::fabs(sp.dx), 0, d });
                }
            }
        }
        else if (sp.kind == va::K_RASTER)
        {
            uint8_t L = sp.border[0], R = sp.border[1], T = sp.border[2], B = sp.border[3];
            if (sp.uniform_border_ctor)
                R = T = B = L;
            if ((L == va::ST_LOOPED) != (R == va::ST_LOOPED)
                || (T == va::ST_LOOPED) != (B == va::ST_LOOPED))
                fail("asymmetric looped");
            m.hloop = (L == va::ST_LOOPED && R == va::ST_LOOPED);
            m.vloop = (T == va::ST_LOOPED && B == va::ST_LOOPED);
            size_t nr = sp.rows, nc = sp.cols;
            for (size_t r = 0; r < nr; ++r)
                for (size_t c = 0; c < nc; ++c)
                {
                    uint8_t s = va::ST_CORE;
                    auto cand = [&](uint8_t b)
                    {
                        if (prio(b) > prio(s))
                            s = b;
                    };
                    if (c == 0)
                        cand(L);
                    if (c == nc - 1)
                        cand(R);
                    if (r == 0)
                        cand(T);
                    if (r == nr - 1)
                        cand(B);
                    m.status[r * nc + c] = s;
                }
            std::map<std::pair<size_t, size_t>, uint8_t> ov;
            for (auto& o : sp.overrides)
                ov[{ o.row, o.col }] = o.status;
            for (auto& [rc, st] : ov)
            {
                if (m.ctor_throws)
                    break;
                if (rc.first >= nr || rc.second >= nc)
                    fail("override out of range");
                else if (st == va::ST_LOOPED)
                    fail("looped in override map");
                else if (m.status[rc.first * nc + rc.second] == va::ST_LOOPED)
                    fail("override over looped node");
                else
                    m.status[rc.first * nc + rc.second] = st;
            }
            std::vector<std::pair<int, int>> offs;
            for (int dr = -1; dr <= 1; ++dr)
                for (int dc = -1; dc <= 1; ++dc)
                {
                    if (dr == 0 && dc == 0)
                        continue;
                    bool diag = dr != 0 && dc != 0;
                    if (sp.connect == va::C_ROOK && diag)
                        continue;
                    if (sp.connect == va::C_BISHOP && !diag)
                        continue;
                    offs.push_back({ dr, dc });
                }
            for (size_t r = 0; r < nr; ++r)
                for (size_t c = 0; c < nc; ++c)
                {
                    size_t i = r * nc + c;
                    m.x[i] = static_cast<double>(c) * sp.dx;
                    m.y[i] = static_cast<double>(r) * sp.dy;
                    m.area[i] = static_cast<long double>(sp.dy) * sp.dx;
                    for (auto [dr, dc] : offs)
                    {
                        long rr = static_cast<long>(r) + dr, cc = static_cast<long>(c) + dc;
                        if (rr < 0 || rr >= static_cast<long>(nr))
                        {
                            if (!m.vloop)
                                continue;
                            rr = (rr + static_cast<long>(nr)) % static_cast<long>(nr);
                        }
                        if (cc < 0 || cc >= static_cast<long>(nc))
                        {
                            if (!m.hloop)
                                continue;
                            cc = (cc + static_cast<long>(nc)) % static_cast<long>(nc);
                        }
                        double d = std::sqrt((dr * sp.dy) * (dr * sp.dy) + (dc * sp.dx) * (dc * sp.dx));
                        m.nb[i].push_back(
                            { static_cast<size_t>(rr) * nc + static_cast<size_t>(cc), d, dr, dc });
                    }
                }
        }
        else
        {
            // triangular mesh
            std::map<std::pair<size_t, size_t>, int> edges;
            for (auto& t : sp.tris)
                for (int k = 0; k < 3; ++k)
                {
                    size_t a = t[k], b = t[(k + 1) % 3];
                    if (a > b)
                        std::swap(a, b);
                    edges[{ a, b }]++;
                }
            m.mesh_boundary.assign(m.n, 0);
            for (auto& [e, cnt] : edges)
            {
                double dxx = sp.px[e.first] - sp.px[e.second], dyy = sp.py[e.first] - sp.py[e.second];
                double d = std::sqrt(dxx * dxx + dyy * dyy);
                m.nb[e.first].push_back({ e.second, d });
                m.nb[e.second].push_back({ e.first, d });
                if (cnt == 1)
                    m.mesh_boundary[e.first] = m.mesh_boundary[e.second] = 1;
            }
            for (size_t i = 0; i < m.n; ++i)
            {
                m.x[i] = sp.px[i];
                m.y[i] = sp.py[i];
            }
            // status
            std::map<size_t, uint8_t> ov;
            if (sp.mesh_status_mode == 1)
                for (auto& o : sp.overrides)
                    ov[o.col] = o.status;
            if (sp.mesh_status_mode == 2)
            {
                if (sp.mesh_status_arr.size() != m.n)
                    fail("status array shape");
                else
                    m.status = sp.mesh_status_arr;
            }
            else if (!ov.empty())
            {
                for (auto& [idx, st] : ov)
                {
                    if (m.ctor_throws)
                        break;
                    if (st == va::ST_LOOPED)
                        fail("looped on mesh");
                    else if (idx >= m.n)
                        fail("override out of range");
                    else
                        m.status[idx] = st;
                }
            }
            else
            {
                for (size_t i = 0; i < m.n; ++i)
                    if (m.mesh_boundary[i])
                        m.status[i] = va::ST_FIXED_VALUE;
            }
            // areas: circumcentric (Voronoi) share by the cotangent formula
            long double total = 0;
            long double minsin = 1;
            for (auto& t : sp.tris)
            {
                long double X[3] = { sp.px[t[0]], sp.px[t[1]], sp.px[t[2]] };
                long double Y[3] = { sp.py[t[0]], sp.py[t[1]], sp.py[t[2]] };
                long double A2 = fabsl(tri_area2(X[0], Y[0], X[1], Y[1], X[2], Y[2]));  // 2*area
                total += A2 / 2;
                // cot at vertex k = dot(e1,e2)/|cross|
                long double cot[3], l2[3];  // l2[k] = squared length of the edge opposite k
                for (int k = 0; k < 3; ++k)
                {
                    int a = (k + 1) % 3, b = (k + 2) % 3;
                    long double ux = X[a] - X[k], uy = Y[a] - Y[k];
                    long double vx = X[b] - X[k], vy = Y[b] - Y[k];
                    long double dot = ux * vx + uy * vy;
                    cot[k] = A2 > 0 ? dot / A2 : 0;
                    l2[k] = (X[a] - X[b]) * (X[a] - X[b]) + (Y[a] - Y[b]) * (Y[a] - Y[b]);
                    long double lu = sqrtl(ux * ux + uy * uy), lv = sqrtl(vx * vx + vy * vy);
                    long double s = (lu > 0 && lv > 0) ? A2 / (lu * lv) : 0;
                    minsin = std::min(minsin, s);
                    if (dot < 0)
                        m.mesh_has_obtuse = true;
                }
                for (int k = 0; k < 3; ++k)
                {
                    int a = (k + 1) % 3, b = (k + 2) % 3;
                    // edges adjacent to k are opposite to a and b
                    m.area[t[k]] += (l2[a] * cot[a] + l2[b] * cot[b]) / 8;
                    m.area_mag[t[k]] += (fabsl(l2[a] * cot[a]) + fabsl(l2[b] * cot[b])) / 8;
                }
            }
            m.total_tri_area = static_cast<double>(total);
            m.min_sin = static_cast<double>(minsin);
            // hole: an interior "boundary" cycle exists when boundary edges > hull; a cheap
            // proxy: Euler characteristic V' - E + F != 1 on the used vertices per component
            {
                std::set<size_t> used;
                for (auto& t : sp.tris)
                    for (auto v : t)
                        used.insert(v);
                long chi = static_cast<long>(used.size()) - static_cast<long>(edges.size())
                           + static_cast<long>(sp.tris.size());
                m.mesh_has_hole = !sp.tris.empty() && chi != 1;
            }
        }
        return m;
    }

    inline const char* status_name(uint8_t s)
    {
        switch (s)
        {
            case va::ST_CORE:
                return "core";
            case va::ST_FIXED_VALUE:
                return "fv";
            case va::ST_FIXED_GRADIENT:
                return "fg";
            case va::ST_LOOPED:
                return "loop";
        }
        return "?";
    }

    inline std::string describe(const GridSpec& sp)
    {
        std::ostringstream o;
        if (sp.kind == va::K_PROFILE)
        {
            o << "profile(size=" << sp.cols << ",dx=" << vg::fmt(sp.dx) << ","
              << (sp.cache ? "cache" : "nocache") << ",border=" << status_name(sp.border[0]);
            if (!sp.uniform_border_ctor)
                o << "/" << status_name(sp.border[1]);
            else
                o << "(uniform)";
        }
        else if (sp.kind == va::K_RASTER)
        {
            const char* cn[] = { "rook", "queen", "bishop" };
            o << "raster(" << sp.rows << "x" << sp.cols << "," << cn[sp.connect] << ","
              << (sp.cache ? "cache" : "nocache") << ",dy=" << vg::fmt(sp.dy)
              << ",dx=" << vg::fmt(sp.dx) << ",LRTB=";
            if (sp.uniform_border_ctor)
                o << status_name(sp.border[0]) << "(uniform)";
            else
                o << status_name(sp.border[0]) << "/" << status_name(sp.border[1]) << "/"
                  << status_name(sp.border[2]) << "/" << status_name(sp.border[3]);
        }
        else
        {
            o << "trimesh(n=" << sp.px.size() << ",tris=" << sp.tris.size()
              << ",status_mode=" << sp.mesh_status_mode;
            o << ",pts=[";
            for (size_t i = 0; i < sp.px.size(); ++i)
                o << (i ? ";" : "") << vg::fmt(sp.px[i]) << "," << vg::fmt(sp.py[i]);
            o << "],tri=[";
            for (size_t i = 0; i < sp.tris.size(); ++i)
                o << (i ? ";" : "") << sp.tris[i][0] << "," << sp.tris[i][1] << "," << sp.tris[i][2];
            o << "]";
            if (sp.mesh_status_mode == 2)
            {
                o << ",st=[";
                for (auto s : sp.mesh_status_arr)
                    o << int(s);
                o << "]";
            }
        }
        if (sp.from_length)
            o << ",from_length";
        if (!sp.overrides.empty() && !(sp.kind == va::K_TRIMESH && sp.mesh_status_mode != 1))
        {
            o << ",ov={";
            for (auto& ov : sp.overrides)
                o << "(" << ov.row << "," << ov.col << ")=" << status_name(ov.status) << " ";
            o << "}";
        }
        o << ")";
        return o.str();
    }
}
