// Implementation of the type-erased facade for ONE concrete grid type.
// Included by adapter_<k>.cpp with VA_GRID_TYPE / VA_TYPE_INDEX defined.
#pragma once
#include <cassert>
#include <map>
#include <memory>
#include <stdexcept>
#include <variant>

#include "xtensor/xarray.hpp"
#include "xtensor/xtensor.hpp"
#include "xtensor/xadapt.hpp"

#include "fastscapelib/grid/profile_grid.hpp"
#include "fastscapelib/grid/raster_grid.hpp"
#include "fastscapelib/grid/trimesh.hpp"
#include "fastscapelib/flow/flow_graph.hpp"
#include "fastscapelib/flow/flow_router.hpp"
#include "fastscapelib/flow/sink_resolver.hpp"
#include "fastscapelib/flow/flow_snapshot.hpp"
#include "fastscapelib/flow/basin_graph.hpp"
#include "fastscapelib/eroders/spl.hpp"
#include "fastscapelib/eroders/diffusion_adi.hpp"

#include "adapter.hpp"

namespace va_detail
{
    namespace fs = fastscapelib;

    using op_variant = std::variant<std::shared_ptr<fs::single_flow_router>,
                                    std::shared_ptr<fs::multi_flow_router>,
                                    std::shared_ptr<fs::pflood_sink_resolver>,
                                    std::shared_ptr<fs::mst_sink_resolver>,
                                    std::shared_ptr<fs::flow_snapshot>>;
    struct ops_list
    {
        std::vector<op_variant> ops;
    };

    inline op_variant make_op(const va::OpSpec& s)
    {
        switch (s.kind)
        {
            case va::OP_SINGLE:
                if (s.default_ctor)
                    return std::make_shared<fs::single_flow_router>();
                return std::make_shared<fs::single_flow_router>(s.threads);
            case va::OP_MULTI:
                return std::make_shared<fs::multi_flow_router>(s.p);
            case va::OP_PFLOOD:
                return std::make_shared<fs::pflood_sink_resolver>();
            case va::OP_MST:
                if (s.default_ctor)
                    return std::make_shared<fs::mst_sink_resolver>();
                return std::make_shared<fs::mst_sink_resolver>(
                    s.mst == va::MST_KRUSKAL ? fs::mst_method::kruskal : fs::mst_method::boruvka,
                    s.route == va::ROUTE_BASIC ? fs::mst_route_method::basic
                                               : fs::mst_route_method::carve);
            case va::OP_SNAPSHOT:
                return std::make_shared<fs::flow_snapshot>(s.name, s.save_graph, s.save_elev);
        }
        throw std::logic_error("bad op kind");
    }
}

namespace fastscapelib
{
    // The library's own runtime extension point (declared friend of
    // flow_operator_sequence, defined by the Python bindings in
    // python/src/flow_graph.hpp): builds a sequence one operator at a time.
    template <class FG, class OPs>
    flow_operator_sequence<FG> make_flow_operator_sequence(OPs&& ops)
    {
        flow_operator_sequence<FG> seq;
        for (auto& v : ops.ops)
        {
            std::visit([&seq](auto& ptr) { seq.add_operator(ptr); }, v);
        }
        return std::move(seq);
    }
}

// Everything below depends on the concrete grid type of this translation unit:
// internal linkage, so that the nine translation units do not clash (ODR).
namespace va_detail
{
namespace
{
    using grid_type = VA_GRID_TYPE;
    static constexpr int type_index = VA_TYPE_INDEX;
    // value-dependent on G so that `if constexpr` discards the other branches
    template <class G>
    struct kind_of
    {
        static constexpr bool raster = (VA_TYPE_INDEX >= 2 && VA_TYPE_INDEX <= 7);
        static constexpr bool profile = (VA_TYPE_INDEX <= 1);
        static constexpr bool mesh = (VA_TYPE_INDEX == 8);
    };

    inline fs::node_status ns(uint8_t s)
    {
        return static_cast<fs::node_status>(s);
    }

    template <class G>
    std::unique_ptr<G> construct_grid(const va::GridSpec& sp)
    {
        if constexpr (kind_of<G>::profile)
        {
            std::map<size_t, fs::node_status> m;
            for (auto& o : sp.overrides)
                m[o.col] = ns(o.status);
            if (sp.uniform_border_ctor)
            {
                fs::profile_boundary_status bs(ns(sp.border[0]));
                if (sp.from_length)
                    return std::make_unique<G>(G::from_length(
                        sp.cols, static_cast<double>(sp.cols - 1) * sp.dx, bs, m));
                return std::make_unique<G>(sp.cols, sp.dx, bs, m);
            }
            fs::profile_boundary_status bs(ns(sp.border[0]), ns(sp.border[1]));
            if (sp.from_length)
                return std::make_unique<G>(
                    G::from_length(sp.cols, static_cast<double>(sp.cols - 1) * sp.dx, bs, m));
            return std::make_unique<G>(sp.cols, sp.dx, bs, m);
        }
        else if constexpr (kind_of<G>::raster)
        {
            std::map<std::pair<size_t, size_t>, fs::node_status> m;
            for (auto& o : sp.overrides)
                m[{ o.row, o.col }] = ns(o.status);
            typename G::shape_type shape{ { sp.rows, sp.cols } };
            auto build = [&](const fs::raster_boundary_status& bs)
            {
                if (sp.from_length)
                    return std::make_unique<G>(
                        G::from_length(shape,
                                       { static_cast<double>(sp.rows - 1) * sp.dy,
                                         static_cast<double>(sp.cols - 1) * sp.dx },
                                       bs,
                                       m));
                return std::make_unique<G>(
                    shape, typename G::spacing_type{ { sp.dy, sp.dx } }, bs, m);
            };
            if (sp.uniform_border_ctor)
                return build(fs::raster_boundary_status(ns(sp.border[0])));
            return build(fs::raster_boundary_status(std::array<fs::node_status, 4>{
                { ns(sp.border[0]), ns(sp.border[1]), ns(sp.border[2]), ns(sp.border[3]) } }));
        }
        else
        {
            size_t n = sp.px.size();
            xt::xtensor<double, 2> pts = xt::zeros<double>({ n, size_t(2) });
            for (size_t i = 0; i < n; ++i)
            {
                pts(i, 0) = sp.px[i];
                pts(i, 1) = sp.py[i];
            }
            xt::xtensor<size_t, 2> tri = xt::zeros<size_t>({ sp.tris.size(), size_t(3) });
            for (size_t t = 0; t < sp.tris.size(); ++t)
                for (size_t k = 0; k < 3; ++k)
                    tri(t, k) = sp.tris[t][k];
            if (sp.mesh_status_mode == 2)
            {
                xt::xtensor<fs::node_status, 1> st
                    = xt::zeros<fs::node_status>({ sp.mesh_status_arr.size() });
                for (size_t i = 0; i < sp.mesh_status_arr.size(); ++i)
                    st(i) = ns(sp.mesh_status_arr[i]);
                return std::make_unique<G>(pts, tri, st);
            }
            std::map<size_t, fs::node_status> m;
            if (sp.mesh_status_mode == 1)
                for (auto& o : sp.overrides)
                    m[o.col] = ns(o.status);
            if (sp.mesh_status_mode == 0)
                return std::make_unique<G>(pts, tri);
            return std::make_unique<G>(pts, tri, m);
        }
    }

    template <class G>
    class GridAdapterT : public va::IGrid
    {
    public:
        GridAdapterT(const va::GridSpec& sp)
            : m_spec(sp)
            , m_grid(construct_grid<G>(sp))
        {
        }
        G& grid()
        {
            return *m_grid;
        }
        const va::GridSpec& spec() const override
        {
            return m_spec;
        }
        size_t size() const override
        {
            return m_grid->size();
        }
        std::vector<size_t> shape() const override
        {
            auto s = m_grid->shape();
            return std::vector<size_t>(s.begin(), s.end());
        }
        int n_neighbors_max() const override
        {
            return G::n_neighbors_max();
        }
        uint8_t status(size_t i) const override
        {
            return static_cast<uint8_t>(m_grid->nodes_status(i));
        }
        std::vector<uint8_t> status_array() const override
        {
            const auto& st = m_grid->nodes_status();
            std::vector<uint8_t> r;
            for (auto it = st.begin(); it != st.end(); ++it)
                r.push_back(static_cast<uint8_t>(*it));
            return r;
        }
        double area(size_t i) const override
        {
            return m_grid->nodes_areas(i);
        }
        std::vector<double> areas() const override
        {
            auto a = m_grid->nodes_areas();
            return std::vector<double>(a.begin(), a.end());
        }
        std::vector<double> spacing() const override
        {
            if constexpr (kind_of<G>::profile)
                return { m_grid->spacing() };
            else if constexpr (kind_of<G>::raster)
            {
                auto s = m_grid->spacing();
                return { s[0], s[1] };
            }
            else
                throw std::logic_error("no spacing");
        }
        std::vector<double> length() const override
        {
            if constexpr (kind_of<G>::profile)
                return { m_grid->length() };
            else if constexpr (kind_of<G>::raster)
            {
                auto s = m_grid->length();
                return { s[0], s[1] };
            }
            else
                throw std::logic_error("no length");
        }
        size_t nb_count(size_t i) const override
        {
            return m_grid->neighbors_count(i);
        }
        std::vector<size_t> nb_indices(size_t i) override
        {
            auto r = m_grid->neighbors_indices(i);
            return std::vector<size_t>(r.begin(), r.end());
        }
        std::vector<size_t> nb_indices_inplace(size_t i) override
        {
            auto& r = m_grid->neighbors_indices(i, m_idx_buf);
            if (&r != &m_idx_buf)
                throw std::logic_error("in-place overload returned another object");
            return std::vector<size_t>(m_idx_buf.begin(), m_idx_buf.end());
        }
        std::vector<double> nb_distances(size_t i) const override
        {
            auto r = m_grid->neighbors_distances(i);
            return std::vector<double>(r.begin(), r.end());
        }
        std::vector<va::Nb> nbs(size_t i) override
        {
            auto r = m_grid->neighbors(i);
            std::vector<va::Nb> out;
            for (auto& n : r)
                out.push_back({ n.idx, n.distance, static_cast<uint8_t>(n.status) });
            return out;
        }
        std::vector<va::Nb> nbs_inplace(size_t i) override
        {
            auto& r = m_grid->neighbors(i, m_nb_buf);
            if (&r != &m_nb_buf)
                throw std::logic_error("in-place overload returned another object");
            std::vector<va::Nb> out;
            for (auto& n : m_nb_buf)
                out.push_back({ n.idx, n.distance, static_cast<uint8_t>(n.status) });
            return out;
        }
        std::vector<va::Nb> nbs_walk(size_t i, size_t k) override
        {
            // "walking": the index argument is a reference INTO the output vector
            // (grid.neighbors(nb[k].idx, nb)), seeded change C07-H
            m_grid->neighbors(i, m_nb_buf);
            std::vector<va::Nb> out;
            if (k >= m_nb_buf.size())
                return out;
            m_nb_buf.reserve(64);  // no reallocation while the call writes into it
            m_grid->neighbors(m_nb_buf[k].idx, m_nb_buf);
            for (auto& n : m_nb_buf)
                out.push_back({ n.idx, n.distance, static_cast<uint8_t>(n.status) });
            return out;
        }
        std::vector<std::pair<size_t, size_t>> nb_indices_rc(size_t r, size_t c, bool inplace) override
        {
            if constexpr (kind_of<G>::raster)
            {
                if (inplace)
                {
                    m_grid->neighbors_indices(r, c, m_rc_buf);
                    return m_rc_buf;
                }
                return m_grid->neighbors_indices(r, c);
            }
            else
            {
                (void) r;
                (void) c;
                (void) inplace;
                throw std::logic_error("raster only");
            }
        }
        std::vector<va::RNb> nbs_rc(size_t r, size_t c, bool inplace) override
        {
            if constexpr (kind_of<G>::raster)
            {
                std::vector<va::RNb> out;
                if (inplace)
                {
                    m_grid->neighbors(r, c, m_rnb_buf);
                    for (auto& n : m_rnb_buf)
                        out.push_back({ n.flatten_idx,
                                        n.row,
                                        n.col,
                                        n.distance,
                                        static_cast<uint8_t>(n.status) });
                }
                else
                {
                    for (auto& n : m_grid->neighbors(r, c))
                        out.push_back({ n.flatten_idx,
                                        n.row,
                                        n.col,
                                        n.distance,
                                        static_cast<uint8_t>(n.status) });
                }
                return out;
            }
            else
            {
                (void) r;
                (void) c;
                (void) inplace;
                throw std::logic_error("raster only");
            }
        }
        int node_code(size_t i) const override
        {
            if constexpr (kind_of<G>::raster)
                return m_grid->nodes_codes(i);
            else
            {
                (void) i;
                return -1;
            }
        }
        std::vector<size_t> iter(int filter, bool reverse) const override
        {
            std::vector<size_t> out;
            auto run = [&](auto&& ni)
            {
                if (!reverse)
                {
                    for (auto it = ni.begin(); it != ni.end(); ++it)
                        out.push_back(*it);
                }
                else
                {
                    for (auto it = ni.rbegin(); it != ni.rend(); ++it)
                        out.push_back(*it);
                }
            };
            if (filter < 0)
                run(m_grid->nodes_indices());
            else
                run(m_grid->nodes_indices(ns(static_cast<uint8_t>(filter))));
            return out;
        }
        size_t cache_used() override
        {
            return m_grid->neighbors_indices_cache().cache_used();
        }
        size_t cache_size() override
        {
            return m_grid->neighbors_indices_cache().cache_size();
        }

    private:
        va::GridSpec m_spec;
        std::unique_ptr<G> m_grid;
        typename G::neighbors_indices_type m_idx_buf;
        typename G::neighbors_type m_nb_buf;
        struct empty
        {
        };
        std::vector<std::pair<size_t, size_t>> m_rc_buf;
        std::conditional_t<kind_of<G>::raster, std::vector<fs::raster_neighbor>, empty> m_rnb_buf;
    };
    using GridAdapter = GridAdapterT<grid_type>;

    using FG = fs::flow_graph<grid_type>;
    using impl_type = typename FG::impl_type;
    using array_type = typename FG::data_array_type;  // xt::xarray<double>

    inline array_type to_array(const grid_type& g, const std::vector<double>& v)
    {
        auto gs = g.shape();
        typename array_type::shape_type shp(gs.begin(), gs.end());
        array_type a = array_type::from_shape(shp);
        if (v.size() != a.size())
            throw std::logic_error("harness: field size mismatch");
        std::copy(v.begin(), v.end(), a.begin());
        return a;
    }

    class BasinGraphAdapter : public va::IBasinGraph
    {
    public:
        BasinGraphAdapter(FG& g, int mst)
            : m_g(g)
            , m_bg(g.impl(), mst == va::MST_KRUSKAL ? fs::mst_method::kruskal : fs::mst_method::boruvka)
        {
        }
        void update_routes(const std::vector<double>& z) override
        {
            // basins and outlets must be up to date (as in the mst resolver)
            m_g.basins();
            m_bg.update_routes(to_array(m_g.grid(), z));
        }
        size_t basins_count() const override
        {
            return m_bg.basins_count();
        }
        std::vector<size_t> outlets() const override
        {
            return m_bg.outlets();
        }
        std::vector<va::BasinEdge> edges() const override
        {
            std::vector<va::BasinEdge> out;
            for (auto& e : m_bg.edges())
                out.push_back({ { e.link[0], e.link[1] },
                                { e.pass[0], e.pass[1] },
                                e.pass_elevation,
                                e.pass_length });
            return out;
        }
        std::vector<size_t> tree() const override
        {
            return m_bg.tree();
        }

    private:
        FG& m_g;
        fs::basin_graph<impl_type> m_bg;
    };

    class SplAdapter : public va::ISpl
    {
    public:
        using E = fs::spl_eroder<FG>;
        SplAdapter(FG& g,
                   bool k_is_array,
                   double k,
                   const std::vector<double>& karr,
                   double m,
                   double n,
                   double tol,
                   bool default_tol)
            : m_g(g)
        {
            if (k_is_array)
            {
                array_type ka = to_array(g.grid(), karr);
                if (default_tol)
                    m_e = std::make_unique<E>(g, ka, m, n);
                else
                    m_e = std::make_unique<E>(g, ka, m, n, tol);
            }
            else
            {
                if (default_tol)
                    m_e = std::make_unique<E>(g, k, m, n);
                else
                    m_e = std::make_unique<E>(g, k, m, n, tol);
            }
        }
        std::vector<double> erode(const std::vector<double>& z,
                                  const std::vector<double>& area,
                                  double dt) override
        {
            array_type za = to_array(m_g.grid(), z);
            array_type aa = to_array(m_g.grid(), area);
            const auto& e = m_e->erode(za, aa, dt);
            return std::vector<double>(e.begin(), e.end());
        }
        size_t n_corr() override
        {
            return m_e->n_corr();
        }
        void set_slope_exp(double n) override
        {
            m_e->set_slope_exp(n);
        }
        void set_area_exp(double m) override
        {
            m_e->set_area_exp(m);
        }
        void set_k_scalar(double k) override
        {
            m_e->set_k_coef(k);
        }
        void set_k_array(const std::vector<double>& k) override
        {
            array_type ka = to_array(m_g.grid(), k);
            m_e->set_k_coef(ka);
        }
        void set_k_array_bad_shape() override
        {
            // one element more than the grid has nodes, values that would be visible if they stayed
            array_type ka = xt::ones<double>({ m_g.size() + 1 }) * 12345.0;
            m_e->set_k_coef(ka);
        }
        std::vector<double> k_coef() override
        {
            const auto& k = m_e->k_coef();
            return std::vector<double>(k.begin(), k.end());
        }
        double slope_exp() override
        {
            return m_e->slope_exp();
        }
        double area_exp() override
        {
            return m_e->area_exp();
        }
        double tolerance() override
        {
            return m_e->tolerance();
        }

    private:
        FG& m_g;
        std::unique_ptr<E> m_e;
    };

    // ---- kernels --------------------------------------------------------
    struct KData
    {
        const impl_type* impl;
        const double* in;
        double* out;
    };
    struct KNode
    {
        double in;
        double out;
        size_t nrec;
        double w[32];
        double rout[32];
    };

    class GraphAdapter : public va::IGraph
    {
    public:
        // owning
        GraphAdapter(GridAdapter& ga, const std::vector<va::OpSpec>& specs)
            : m_ga(ga)
        {
            ops_list lst;
            for (auto& s : specs)
            {
                m_ops.push_back(make_op(s));
                lst.ops.push_back(m_ops.back());
            }
            // The sequence reaches the graph through one of the three ways user code can build it
            // (chosen by a pure function of the case, so that every program shape meets each of
            // them on some grid): moved straight in; default-constructed, then move-ASSIGNED (as
            // test_sink_resolver.cpp does; seeded change C09-E lives in that operator); or
            // move-assigned over a sequence that held another program before.
            size_t how = (ga.size() + specs.size()) % 4;
            if (how == 0 || how == 2)
            {
                auto seq = fs::make_flow_operator_sequence<impl_type>(lst);
                m_owned = std::make_unique<FG>(ga.grid(), std::move(seq));
            }
            else if (how == 1)
            {
                fs::flow_operator_sequence<impl_type> seq;
                seq = fs::make_flow_operator_sequence<impl_type>(lst);
                m_owned = std::make_unique<FG>(ga.grid(), std::move(seq));
            }
            else
            {
                fs::flow_operator_sequence<impl_type> seq(fs::pflood_sink_resolver(), fs::multi_flow_router(1.0));
                seq = fs::make_flow_operator_sequence<impl_type>(lst);
                m_owned = std::make_unique<FG>(ga.grid(), std::move(seq));
            }
            m_g = m_owned.get();
        }
        GraphAdapter(GridAdapter& ga, std::unique_ptr<FG> owned)
            : m_ga(ga)
            , m_owned(std::move(owned))
        {
            m_g = m_owned.get();
        }
        // non-owning (snapshots)
        GraphAdapter(GridAdapter& ga, FG* g)
            : m_ga(ga)
            , m_g(g)
        {
        }

        va::UpdateResult update_routes(const std::vector<double>& z) override
        {
            m_in = to_array(m_ga.grid(), z);
            const array_type& out = m_g->update_routes(m_in);
            va::UpdateResult r;
            r.same_object = (&out == &m_in);
            r.out.assign(out.begin(), out.end());
            r.input_after.assign(m_in.begin(), m_in.end());
            return r;
        }
        void set_mask(const std::vector<uint8_t>& m) override
        {
            auto gs = m_ga.grid().shape();
            typename xt::xarray<bool>::shape_type shp(gs.begin(), gs.end());
            xt::xarray<bool> a = xt::xarray<bool>::from_shape(shp);
            if (m.size() != a.size())
                throw std::logic_error("harness: mask size mismatch");
            for (size_t i = 0; i < m.size(); ++i)
                a.flat(i) = m[i] != 0;
            m_g->set_mask(a);
        }
        void set_mask_bad_shape() override
        {
            // all true (visible if it stayed in force): the transposed shape where that differs
            // from the grid's (same size: reading it by flat index stays inside the array),
            // otherwise one element / one row more
            auto gs = m_ga.grid().shape();
            typename xt::xarray<bool>::shape_type shp(gs.begin(), gs.end());
            if (shp.size() == 2 && shp[0] != shp[1])
                std::swap(shp[0], shp[1]);
            else
                shp[0] += 1;
            xt::xarray<bool> a = xt::ones<bool>(shp);
            m_g->set_mask(a);
        }
        std::vector<uint8_t> mask() const override
        {
            auto m = m_g->mask();
            std::vector<uint8_t> out;
            for (auto it = m.begin(); it != m.end(); ++it)
                out.push_back(*it ? 1 : 0);
            return out;
        }
        void set_base_levels(const std::vector<size_t>& b) override
        {
            m_g->set_base_levels(b);
        }
        std::vector<size_t> base_levels() const override
        {
            return m_g->base_levels();
        }
        va::GraphState state() const override
        {
            const auto& im = m_g->impl();
            va::GraphState s;
            s.n = im.size();
            s.rcols = im.receivers().shape()[1];
            s.dcols = im.donors().shape()[1];
            s.rec.assign(im.receivers().begin(), im.receivers().end());
            s.rec_count.assign(im.receivers_count().begin(), im.receivers_count().end());
            s.dist.assign(im.receivers_distance().begin(), im.receivers_distance().end());
            s.weight.assign(im.receivers_weight().begin(), im.receivers_weight().end());
            s.don.assign(im.donors().begin(), im.donors().end());
            s.don_count.assign(im.donors_count().begin(), im.donors_count().end());
            s.dfs.assign(im.dfs_indices().begin(), im.dfs_indices().end());
            s.bfs.assign(im.bfs_indices().begin(), im.bfs_indices().end());
            s.levels.assign(im.bfs_levels().begin(), im.bfs_levels().end());
            s.storage_indices.assign(im.storage_indices().begin(), im.storage_indices().end());
            s.any_levels.assign(im.any_order_levels().begin(), im.any_order_levels().end());
            return s;
        }
        bool single_flow() const override
        {
            return m_g->single_flow();
        }
        bool impl_single_flow() const override
        {
            return m_g->impl().single_flow();
        }
        size_t size() const override
        {
            return m_g->size();
        }
        std::vector<size_t> grid_shape() const override
        {
            auto s = m_g->grid_shape();
            return std::vector<size_t>(s.begin(), s.end());
        }
        std::vector<std::string> op_names() const override
        {
            std::vector<std::string> out;
            for (auto* op : m_g->operators())
                out.push_back(op->name());
            return out;
        }
        std::vector<std::string> graph_snapshot_keys() const override
        {
            return m_g->graph_snapshot_keys();
        }
        std::vector<std::string> elevation_snapshot_keys() const override
        {
            return m_g->elevation_snapshot_keys();
        }
        va::IGraph& graph_snapshot(const std::string& name) override
        {
            FG& sg = m_g->graph_snapshot(name);
            auto it = m_snap.find(name);
            if (it == m_snap.end())
                it = m_snap.emplace(name, std::make_unique<GraphAdapter>(m_ga, &sg)).first;
            return *it->second;
        }
        std::vector<double> elevation_snapshot(const std::string& name) const override
        {
            const auto& e = m_g->elevation_snapshot(name);
            return std::vector<double>(e.begin(), e.end());
        }
        std::vector<double> accumulate(int overload,
                                       const std::vector<double>& src,
                                       double scalar,
                                       double dirty) override
        {
            auto gs = m_ga.grid().shape();
            typename array_type::shape_type shp(gs.begin(), gs.end());
            switch (overload)
            {
                case 0:
                {
                    array_type s = to_array(m_ga.grid(), src);
                    array_type r = m_g->accumulate(s);
                    return std::vector<double>(r.begin(), r.end());
                }
                case 1:
                {
                    array_type s = to_array(m_ga.grid(), src);
                    array_type acc = array_type::from_shape(shp);
                    acc.fill(dirty);
                    m_g->accumulate(acc, s);
                    return std::vector<double>(acc.begin(), acc.end());
                }
                case 2:
                {
                    array_type r = m_g->accumulate(scalar);
                    return std::vector<double>(r.begin(), r.end());
                }
                default:
                {
                    array_type acc = array_type::from_shape(shp);
                    acc.fill(dirty);
                    m_g->accumulate(acc, scalar);
                    return std::vector<double>(acc.begin(), acc.end());
                }
            }
        }
        std::vector<size_t> basins() override
        {
            auto b = m_g->basins();
            return std::vector<size_t>(b.begin(), b.end());
        }
        std::vector<size_t> outlets() const override
        {
            return m_g->impl().outlets();
        }
        std::vector<size_t> pits() override
        {
            return m_g->impl_ptr()->pits();
        }
        void set_op_param(size_t op_index, const va::OpSpec& p) override
        {
            auto& v = m_ops.at(op_index);
            if (auto* mp = std::get_if<std::shared_ptr<fs::multi_flow_router>>(&v))
            {
                (*mp)->m_slope_exp = p.p;
            }
            else if (auto* sp = std::get_if<std::shared_ptr<fs::mst_sink_resolver>>(&v))
            {
                (*sp)->m_basin_method
                    = p.mst == va::MST_KRUSKAL ? fs::mst_method::kruskal : fs::mst_method::boruvka;
                (*sp)->m_route_method = p.route == va::ROUTE_BASIC ? fs::mst_route_method::basic
                                                                   : fs::mst_route_method::carve;
            }
            else
                throw std::logic_error("harness: operator has no writable parameter");
        }

        std::vector<double> apply_kernel(int kind,
                                         int n_threads,
                                         int min_block_size,
                                         int min_level_size,
                                         const std::vector<double>& in) override
        {
            std::vector<double> out(in.size(), -777.0);
            KData kd{ &m_g->impl(), in.data(), out.data() };
            fs::detail::flow_kernel k;
            fs::detail::flow_kernel_data d;
            d.data = &kd;
            k.node_data_create = []() -> void* { return new KNode(); };
            k.node_data_free = [](void* p) { delete reinterpret_cast<KNode*>(p); };
            k.node_data_init = nullptr;
            k.n_threads = n_threads;
            k.min_block_size = min_block_size;
            k.min_level_size = min_level_size;
            if (kind == va::KERNEL_ANY)
            {
                k.apply_dir = fs::flow_graph_traversal_dir::any;
                k.node_data_getter = [](std::size_t i, void* dp, void* np) -> int
                {
                    auto& kd_ = *reinterpret_cast<KData*>(dp);
                    auto& nd = *reinterpret_cast<KNode*>(np);
                    nd.in = kd_.in[i];
                    return 0;
                };
                k.func = [](void* np) -> int
                {
                    auto& nd = *reinterpret_cast<KNode*>(np);
                    nd.out = 2 * nd.in + 1;
                    return 0;
                };
            }
            else
            {
                k.apply_dir = kind == va::KERNEL_BREADTH_UPSTREAM
                                  ? fs::flow_graph_traversal_dir::breadth_upstream
                                  : fs::flow_graph_traversal_dir::depth_upstream;
                k.node_data_getter = [](std::size_t i, void* dp, void* np) -> int
                {
                    auto& kd_ = *reinterpret_cast<KData*>(dp);
                    auto& nd = *reinterpret_cast<KNode*>(np);
                    const auto& im = *kd_.impl;
                    nd.in = kd_.in[i];
                    nd.nrec = 0;
                    size_t cnt = im.receivers_count()(i);
                    if (cnt > 32)
                        return 1;
                    for (size_t r = 0; r < cnt; ++r)
                    {
                        size_t ir = im.receivers()(i, r);
                        if (ir == i)
                            continue;
                        nd.w[nd.nrec] = im.receivers_weight()(i, r);
                        nd.rout[nd.nrec] = kd_.out[ir];
                        ++nd.nrec;
                    }
                    return 0;
                };
                k.func = [](void* np) -> int
                {
                    auto& nd = *reinterpret_cast<KNode*>(np);
                    double s = nd.in;
                    for (size_t r = 0; r < nd.nrec; ++r)
                        s += nd.w[r] * nd.rout[r];
                    nd.out = s;
                    return 0;
                };
            }
            k.node_data_setter = [](std::size_t i, void* np, void* dp) -> int
            {
                auto& kd_ = *reinterpret_cast<KData*>(dp);
                auto& nd = *reinterpret_cast<KNode*>(np);
                kd_.out[i] = nd.out;
                return 0;
            };
            m_g->apply_kernel(k, d);
            return out;
        }

        std::unique_ptr<va::IBasinGraph> make_basin_graph(int mst) override
        {
            return std::make_unique<BasinGraphAdapter>(*m_g, mst);
        }
        std::unique_ptr<va::ISpl> make_spl(bool k_is_array,
                                           double k,
                                           const std::vector<double>& karr,
                                           double m,
                                           double n,
                                           double tol,
                                           bool default_tol) override
        {
            return std::make_unique<SplAdapter>(*m_g, k_is_array, k, karr, m, n, tol, default_tol);
        }

    private:
        GridAdapter& m_ga;
        std::vector<op_variant> m_ops;
        std::unique_ptr<FG> m_owned;
        FG* m_g = nullptr;
        array_type m_in;
        std::map<std::string, std::unique_ptr<GraphAdapter>> m_snap;
    };

    template <class G>
    class DiffusionAdapterT : public va::IDiffusion
    {
    public:
        DiffusionAdapterT(GridAdapter& ga, bool k_is_array, double k, const std::vector<double>& karr)
            : m_ga(ga)
        {
            if constexpr (kind_of<G>::raster)
            {
                if (k_is_array)
                {
                    xt::xtensor<double, 2> ka = to_tensor(karr);
                    m_e = std::make_unique<E>(ga.grid(), ka);
                }
                else
                    m_e = std::make_unique<E>(ga.grid(), k);
            }
            else
            {
                (void) k_is_array;
                (void) k;
                (void) karr;
                throw std::logic_error("raster only");
            }
        }
        std::vector<double> erode(const std::vector<double>& z, double dt) override
        {
            if constexpr (kind_of<G>::raster)
            {
                array_type za = to_array(m_ga.grid(), z);
                const auto& e = m_e->erode(za, dt);
                m_last = &e;
                return std::vector<double>(e.begin(), e.end());
            }
            else
            {
                (void) z;
                (void) dt;
                throw std::logic_error("raster only");
            }
        }
        std::vector<double> erode_last(double dt) override
        {
            if constexpr (kind_of<G>::raster)
            {
                if (!m_last)
                    throw std::logic_error("erode_last before erode");
                const auto& e = m_e->erode(*m_last, dt);
                m_last = &e;
                return std::vector<double>(e.begin(), e.end());
            }
            else
            {
                (void) dt;
                throw std::logic_error("raster only");
            }
        }
        void set_k_scalar(double k) override
        {
            if constexpr (kind_of<G>::raster)
                m_e->set_k_coef(k);
            else
                (void) k;
        }
        void set_k_array(const std::vector<double>& k) override
        {
            if constexpr (kind_of<G>::raster)
            {
                xt::xtensor<double, 2> ka = to_tensor(k);
                m_e->set_k_coef(ka);
            }
            else
                (void) k;
        }
        void set_k_array_bad_shape() override
        {
            if constexpr (kind_of<G>::raster)
            {
                auto shp = m_ga.grid().shape();
                xt::xtensor<double, 2> ka = xt::ones<double>({ shp[0] + 1, shp[1] }) * 12345.0;
                m_e->set_k_coef(ka);
            }
        }
        std::vector<double> k_coef() override
        {
            if constexpr (kind_of<G>::raster)
            {
                auto k = m_e->k_coef();
                return std::vector<double>(k.begin(), k.end());
            }
            else
                return {};
        }

    private:
        xt::xtensor<double, 2> to_tensor(const std::vector<double>& v)
        {
            auto gs = m_ga.grid().shape();
            xt::xtensor<double, 2> a = xt::zeros<double>({ size_t(gs[0]), size_t(gs[1]) });
            if (v.size() != a.size())
                throw std::logic_error("harness: k size mismatch");
            std::copy(v.begin(), v.end(), a.begin());
            return a;
        }
        struct empty
        {
        };
        using E = std::conditional_t<kind_of<G>::raster, fs::diffusion_adi_eroder<grid_type>, empty>;
        GridAdapter& m_ga;
        std::unique_ptr<E> m_e;
        const array_type* m_last = nullptr;  // the eroder's own result buffer, as returned
    };
    using DiffusionAdapter = DiffusionAdapterT<grid_type>;

    inline std::vector<std::vector<va::OpSpec>> static_programs()
    {
        using namespace va;
        auto S = [](int t = 0, bool d = false)
        {
            OpSpec o;
            o.kind = OP_SINGLE;
            o.threads = t;
            o.default_ctor = d;
            return o;
        };
        auto M = [](double p)
        {
            OpSpec o;
            o.kind = OP_MULTI;
            o.p = p;
            return o;
        };
        auto P = []()
        {
            OpSpec o;
            o.kind = OP_PFLOOD;
            return o;
        };
        auto T = [](int m, int r, bool d = false)
        {
            OpSpec o;
            o.kind = OP_MST;
            o.mst = m;
            o.route = r;
            o.default_ctor = d;
            return o;
        };
        auto N = [](std::string n, bool g, bool e)
        {
            OpSpec o;
            o.kind = OP_SNAPSHOT;
            o.name = n;
            o.save_graph = g;
            o.save_elev = e;
            return o;
        };
        return {
            { S(0, true) },
            { P(), S(0, true) },
            { S(0, true), T(MST_KRUSKAL, ROUTE_CARVE, true) },
            { M(1.1) },
            { S(0, true),
              N("a", true, false),
              T(MST_BORUVKA, ROUTE_BASIC),
              N("b", true, true),
              M(1.0) },
            { P(), M(0.5) },
        };
    }

    inline std::unique_ptr<FG> construct_static(grid_type& g, int id)
    {
        switch (id)
        {
            case 0:
                return std::make_unique<FG>(
                    g, typename FG::operators_type{ fs::single_flow_router() });
            case 1:
                return std::make_unique<FG>(
                    g,
                    typename FG::operators_type{ fs::pflood_sink_resolver(),
                                                 fs::single_flow_router() });
            case 2:
                return std::make_unique<FG>(
                    g,
                    typename FG::operators_type{ fs::single_flow_router(),
                                                 fs::mst_sink_resolver() });
            case 3:
                return std::make_unique<FG>(
                    g, typename FG::operators_type{ fs::multi_flow_router(1.1) });
            case 4:
                return std::make_unique<FG>(
                    g,
                    typename FG::operators_type{
                        fs::single_flow_router(),
                        fs::flow_snapshot("a"),
                        fs::mst_sink_resolver(fs::mst_method::boruvka, fs::mst_route_method::basic),
                        fs::flow_snapshot("b", true, true),
                        fs::multi_flow_router(1.0) });
            default:
                return std::make_unique<FG>(
                    g,
                    typename FG::operators_type{ fs::pflood_sink_resolver(),
                                                 fs::multi_flow_router(0.5) });
        }
    }
}  // anonymous namespace
}

// entry points of this translation unit ------------------------------------------------
#define VA_CAT2(a, b) a##b
#define VA_CAT(a, b) VA_CAT2(a, b)

namespace va
{
    std::unique_ptr<IGrid> VA_CAT(make_grid_, VA_TYPE_INDEX)(const GridSpec& sp)
    {
        return std::make_unique<va_detail::GridAdapter>(sp);
    }
    std::unique_ptr<IGraph> VA_CAT(make_graph_, VA_TYPE_INDEX)(IGrid& g,
                                                              const std::vector<OpSpec>& ops)
    {
        return std::make_unique<va_detail::GraphAdapter>(static_cast<va_detail::GridAdapter&>(g),
                                                         ops);
    }
    std::unique_ptr<IGraph> VA_CAT(make_graph_static_, VA_TYPE_INDEX)(IGrid& g, int id)
    {
        auto& ga = static_cast<va_detail::GridAdapter&>(g);
        return std::make_unique<va_detail::GraphAdapter>(
            ga, va_detail::construct_static(ga.grid(), id));
    }
    std::unique_ptr<IDiffusion> VA_CAT(make_diffusion_, VA_TYPE_INDEX)(
        IGrid& g, bool k_is_array, double k, const std::vector<double>& karr)
    {
        return std::make_unique<va_detail::DiffusionAdapter>(
            static_cast<va_detail::GridAdapter&>(g), k_is_array, k, karr);
    }
#if VA_TYPE_INDEX == 0
    int n_static_programs()
    {
        return static_cast<int>(va_detail::static_programs().size());
    }
    std::vector<OpSpec> static_program(int id)
    {
        return va_detail::static_programs().at(static_cast<size_t>(id));
    }
#endif
}
