// One translation unit per concrete grid type: compile with -DVA_TYPE_INDEX=<0..8>.
#include "fastscapelib/grid/profile_grid.hpp"
#include "fastscapelib/grid/raster_grid.hpp"
#include "fastscapelib/grid/trimesh.hpp"
namespace fs_ = fastscapelib;
#if VA_TYPE_INDEX == 0
#define VA_GRID_TYPE fs_::profile_grid<fs_::xt_selector, fs_::neighbors_cache<2>>
#elif VA_TYPE_INDEX == 1
#define VA_GRID_TYPE fs_::profile_grid<fs_::xt_selector, fs_::neighbors_no_cache<2>>
#elif VA_TYPE_INDEX == 2
#define VA_GRID_TYPE fs_::raster_grid<fs_::xt_selector, fs_::raster_connect::rook, fs_::neighbors_cache<4>>
#elif VA_TYPE_INDEX == 3
#define VA_GRID_TYPE fs_::raster_grid<fs_::xt_selector, fs_::raster_connect::rook, fs_::neighbors_no_cache<4>>
#elif VA_TYPE_INDEX == 4
#define VA_GRID_TYPE fs_::raster_grid<fs_::xt_selector, fs_::raster_connect::queen, fs_::neighbors_cache<8>>
#elif VA_TYPE_INDEX == 5
#define VA_GRID_TYPE fs_::raster_grid<fs_::xt_selector, fs_::raster_connect::queen, fs_::neighbors_no_cache<8>>
#elif VA_TYPE_INDEX == 6
#define VA_GRID_TYPE fs_::raster_grid<fs_::xt_selector, fs_::raster_connect::bishop, fs_::neighbors_cache<4>>
#elif VA_TYPE_INDEX == 7
#define VA_GRID_TYPE fs_::raster_grid<fs_::xt_selector, fs_::raster_connect::bishop, fs_::neighbors_no_cache<4>>
#elif VA_TYPE_INDEX == 8
#define VA_GRID_TYPE fs_::trimesh
#else
#error "VA_TYPE_INDEX must be 0..8"
#endif
#include "adapter_impl.hpp"
