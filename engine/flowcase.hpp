// Flow cases: (grid configuration, elevation field, mask, base levels, operator program)
// and the glue that builds the real grid + graph for them.
#pragma once
#include "adapter.hpp"
#include "gen.hpp"
#include "harness.hpp"

namespace vf
{
    using va::GraphState;
    using va::OpSpec;

    struct FlowOpts
    {
        vg::GridOpts grid;
        bool every_component = false;  // a base level in every unmasked component
        bool allow_mask = true;
        bool ordinary_fields = false;
    };

    struct FlowCase
    {
        va::GridSpec sp;
        vm::ModelGrid m;
        std::vector<double> z;
        std::vector<uint8_t> mask;  // empty = no mask given
        std::vector<size_t> bl;     // effective base levels (sorted)
        std::vector<uint8_t> isbase;
        std::vector<uint8_t> reach;  // connected to a base level through unmasked neighbours
        vg::FieldInfo fi;
        vg::MaskInfo mi;
        vg::BaseInfo bi;
        bool has_pocket = false;

        bool masked(size_t i) const
        {
            return !mask.empty() && mask[i];
        }
        std::string describe() const
        {
            return vm::describe(sp) + " z=" + vg::describe_field(z, sp.kind == va::K_RASTER ? sp.cols : 0) + " mask=" + vg::describe_mask(mask) + " base=" + vg::describe_set(bl) + (bi.is_explicit ? "(explicit)" : "(default)");
        }
    };

    inline void finish_case(FlowCase& fc)
    {
        // effective base levels: masked nodes are not part of the flow graph
        fc.isbase.assign(fc.m.n, 0);
        fc.bi.has_masked = false;
        for (auto b : fc.bl)
        {
            if (fc.masked(b))
                fc.bi.has_masked = true;
            else
                fc.isbase[b] = 1;
        }
        fc.reach = vg::reach_from(fc.m, fc.mask, fc.bl);
        fc.has_pocket = false;
        for (size_t i = 0; i < fc.m.n; ++i)
            if (!fc.masked(i) && !fc.reach[i])
                fc.has_pocket = true;
    }

    inline FlowCase gen_flow_case(vg::Src& s, const FlowOpts& o)
    {
        FlowCase fc;
        fc.sp = vg::gen_grid(s, o.grid);
        fc.m = vm::build_model(fc.sp);
        fc.z = vg::gen_field(s, fc.m, &fc.fi, o.ordinary_fields);
        if (o.allow_mask)
            fc.mask = vg::gen_mask(s, fc.m, &fc.mi);
        fc.bl = vg::gen_base_levels(s, fc.m, fc.mask, o.every_component, &fc.bi);
        finish_case(fc);
        return fc;
    }

    struct Built
    {
        std::unique_ptr<va::IGrid> grid;
        std::unique_ptr<va::IGraph> graph;
    };

    // A base-level SET has no order: hand it over in a scrambled (deterministic, not ascending)
    // order, so that code relying on sorted input is exercised (seeded change C19-E).  No byte of
    // the case is consumed.
    inline std::vector<size_t> scrambled(std::vector<size_t> bl)
    {
        const uint64_t salt = 0x9E3779B97F4A7C15ULL * (bl.size() + 1);
        std::sort(bl.begin(), bl.end(), [salt](size_t a, size_t b) {
            uint64_t ka = (static_cast<uint64_t>(a) + 1) * 0xD6E8FEB86659FD93ULL ^ salt, kb = (static_cast<uint64_t>(b) + 1) * 0xD6E8FEB86659FD93ULL ^ salt;
            ka ^= ka >> 29;
            kb ^= kb >> 29;
            return ka != kb ? ka < kb : a < b;
        });
        return bl;
    }

    inline void apply_settings(va::IGraph& g, const FlowCase& fc)
    {
        if (!fc.mask.empty())
            g.set_mask(fc.mask);
        if (fc.bi.is_explicit)
            g.set_base_levels(scrambled(fc.bl));
    }

    inline Built build(const FlowCase& fc, const std::vector<OpSpec>& ops, vh::Ctx& c)
    {
        Built b;
        b.grid = va::make_grid(fc.sp);
        b.graph = va::make_graph(*b.grid, ops);
        apply_settings(*b.graph, fc);
        auto bl = b.graph->base_levels();
        std::sort(bl.begin(), bl.end());
        if (bl != fc.bl)
            c.fail("harness-base-levels", "graph base levels " + vg::describe_set(bl) + " differ from the case's " + vg::describe_set(fc.bl));
        return b;
    }

    inline void label_case(vh::Ctx& c, const FlowCase& fc)
    {
        static const char* kinds[] = { "raster", "profile", "trimesh" };
        static const char* conn[] = { "rook", "queen", "bishop" };
        std::string g = kinds[fc.sp.kind];
        if (fc.sp.kind == va::K_RASTER)
            g += std::string("-") + conn[fc.sp.connect];
        if (fc.sp.kind != va::K_TRIMESH)
            g += fc.sp.cache ? "-cache" : "-nocache";
        c.label("grid=" + g);
        c.label("field=" + fc.fi.name);
        c.label("family=" + std::to_string(fc.fi.family));
        c.label("mask=" + std::to_string(fc.mi.cls));
        c.label("base=" + std::to_string(fc.bi.cls) + (fc.bi.is_explicit ? "e" : "d"));
        if (fc.m.hloop || fc.m.vloop)
            c.label("looped");
        if (fc.has_pocket)
            c.label("pocket-without-base-level");
        if (fc.bi.has_masked)
            c.label("masked-base-level-in-set");
    }

    // ---- accessors on a GraphState ------------------------------------------------------
    inline size_t R(const GraphState& s, size_t i, size_t k)
    {
        return s.rec[i * s.rcols + k];
    }
    inline double W(const GraphState& s, size_t i, size_t k)
    {
        return s.weight[i * s.rcols + k];
    }
    inline double D(const GraphState& s, size_t i, size_t k)
    {
        return s.dist[i * s.rcols + k];
    }
    inline size_t DON(const GraphState& s, size_t i, size_t k)
    {
        return s.don[i * s.dcols + k];
    }

    // basic well-formedness needed before any oracle indexes with table contents
    inline void check_wellformed(vh::Ctx& c, const GraphState& s, size_t n)
    {
        c.expect(s.n == n && s.rec_count.size() == n && s.rec.size() == n * s.rcols, "table-shape", "receiver table shape");
        for (size_t i = 0; i < n; ++i)
        {
            if (s.rec_count[i] < 1 || s.rec_count[i] > s.rcols)
                c.fail("receivers-count", "node " + std::to_string(i) + ": receivers_count " + std::to_string(s.rec_count[i]) + " (columns " + std::to_string(s.rcols) + ")");
            for (size_t k = 0; k < s.rec_count[i]; ++k)
                if (R(s, i, k) >= n)
                    c.fail("receiver-range", "node " + std::to_string(i) + ": receiver " + std::to_string(R(s, i, k)) + " out of range");
        }
    }

    // spill level: lowest level from which water can reach a base level
    // level(i) = max(z_i, min over unmasked neighbours level(n)), level(base) = z(base)
    inline std::vector<double> spill_levels(const FlowCase& fc)
    {
        size_t n = fc.m.n;
        std::vector<double> lev(n, INFINITY);
        for (auto b : fc.bl)
            lev[b] = fc.z[b];
        bool changed = true;
        while (changed)
        {
            changed = false;
            for (size_t i = 0; i < n; ++i)
            {
                if (fc.masked(i) || fc.isbase[i])
                    continue;
                double mn = INFINITY;
                for (auto& nb : fc.m.nb[i])
                    if (!fc.masked(nb.idx))
                        mn = std::min(mn, lev[nb.idx]);
                double v = std::max(fc.z[i], mn);
                if (v < lev[i])
                {
                    lev[i] = v;
                    changed = true;
                }
            }
        }
        return lev;
    }

    // ---- resolver programs ------------------------------------------------------------
    struct ProgInfo
    {
        int cls = 0;
        bool d13_shape = false;  // [single, mst(basic), router]
        bool has_carve = false, has_basic = false, has_pflood = false, final_multi = false;
    };

    // Parallel routers outside C10/C11: switched on once the worker-pool and scratch-buffer
    // defects (D7-D9, reported by C10/C11) are repaired -- before that every search that
    // includes a parallel router dies or hangs in the same place and hides everything else.
#ifndef VF_PARALLEL_ROUTERS
#define VF_PARALLEL_ROUTERS 1
#endif
    inline int thread_choice(vg::Src& s, bool allow_parallel)
    {
        allow_parallel = allow_parallel && VF_PARALLEL_ROUTERS;
        if (!allow_parallel)
        {
            s.u8();
            return 0;
        }
        // few and small pools: the pool's workers busy-wait, so many-thread routers in every
        // shard oversubscribe the machine (C10/C11 cover thread counts up to 16)
        static const int t[] = { 0, 1, 2, 3, 4 };
        return t[s.weighted({ 232, 6, 10, 4, 4 })];
    }

    inline std::vector<OpSpec> gen_resolver_program(vg::Src& s, ProgInfo& pi, bool allow_parallel)
    {
        using namespace vg;
        size_t cls = s.weighted({ 50, 36, 70, 40, 20, 40 });
        pi.cls = static_cast<int>(cls);
        int mm = s.coin() ? va::MST_BORUVKA : va::MST_KRUSKAL;
        int rr = s.coin() ? va::ROUTE_BASIC : va::ROUTE_CARVE;
        std::vector<OpSpec> ops;
        switch (cls)
        {
            case 0:
                ops = { op_pflood(), op_single(thread_choice(s, allow_parallel)) };
                pi.has_pflood = true;
                break;
            case 1:
                ops = { op_pflood(), op_multi(slope_exp_value(s)) };
                pi.has_pflood = true;
                pi.final_multi = true;
                break;
            case 2:
                ops = { op_single(thread_choice(s, allow_parallel)), op_mst(mm, rr) };
                break;
            case 3:
                rr = va::ROUTE_CARVE;
                ops = { op_single(0), op_mst(mm, rr), op_multi(slope_exp_value(s)) };
                pi.final_multi = true;
                break;
            case 4:
                rr = va::ROUTE_CARVE;
                ops = { op_single(0), op_snap("before", true, s.coin()), op_mst(mm, rr), op_snap("after", true, true), op_multi(slope_exp_value(s)) };
                pi.final_multi = true;
                break;
            default:
            {
                // a router after the spanning-tree resolver
                bool multi = s.coin();
                ops = { op_single(0), op_mst(mm, rr) };
                if (multi)
                    ops.push_back(op_multi(slope_exp_value(s)));
                else
                    ops.push_back(op_single(thread_choice(s, allow_parallel)));
                pi.final_multi = multi;
                pi.d13_shape = rr == va::ROUTE_BASIC;
            }
        }
        for (auto& o : ops)
            if (o.kind == va::OP_MST)
            {
                pi.has_carve = o.route == va::ROUTE_CARVE;
                pi.has_basic = o.route == va::ROUTE_BASIC;
            }
        return ops;
    }
}

namespace vf
{
    // Any program accepted by the documented rules (model_program), built by construction.
    inline std::vector<OpSpec> gen_valid_program(vg::Src& s, bool allow_snapshots, ProgInfo* pinfo = nullptr)
    {
        using namespace vg;
        std::vector<OpSpec> ops;
        ProgInfo pi;
        int snap_id = 0;
        std::vector<std::string> gnames, enames;
        auto maybe_snap = [&](bool graph_ok)
        {
            if (!allow_snapshots || !s.chance(50))
                return;
            bool g = graph_ok && s.chance(200);
            bool e = !g || s.coin();
            // graph snapshots and elevation snapshots are two separate name spaces: a graph-only
            // and an elevation-only snapshot may carry the same name (seeded change C16-E)
            std::string name;
            if (g != e && s.chance(70))
            {
                const auto& other = g ? enames : gnames;
                const auto& own = g ? gnames : enames;
                for (auto& cand : other)
                    if (std::find(own.begin(), own.end(), cand) == own.end())
                    {
                        name = cand;
                        break;
                    }
            }
            if (name.empty())
                name = "s" + std::to_string(snap_id++);
            if (g)
                gnames.push_back(name);
            if (e)
                enames.push_back(name);
            ops.push_back(op_snap(name, g, e));
        };
        maybe_snap(false);
        if (s.chance(90))
        {
            ops.push_back(op_pflood());
            pi.has_pflood = true;
            maybe_snap(false);
        }
        bool single = !s.chance(90);
        if (single)
            ops.push_back(op_single(thread_choice(s, true), s.chance(40)));
        else
            ops.push_back(op_multi(slope_exp_value(s)));
        maybe_snap(true);
        if (single && s.chance(110))
        {
            int rr = s.coin() ? va::ROUTE_BASIC : va::ROUTE_CARVE;
            ops.push_back(op_mst(s.coin() ? va::MST_BORUVKA : va::MST_KRUSKAL, rr));
            pi.has_basic = rr == va::ROUTE_BASIC;
            pi.has_carve = rr == va::ROUTE_CARVE;
            maybe_snap(true);
            if (s.chance(80))
            {
                bool m2 = s.coin();
                if (m2)
                    ops.push_back(op_multi(slope_exp_value(s)));
                else
                    ops.push_back(op_single(0));
                single = !m2;
                pi.d13_shape = pi.has_basic;
                maybe_snap(true);
            }
        }
        else if (single && s.chance(30))
        {
            ops.push_back(op_multi(slope_exp_value(s)));
            single = false;
            maybe_snap(true);
        }
        else if (!single && s.chance(60))
        {
            // a single-direction router after a multiple-direction one (mixed table widths)
            ops.push_back(op_single(0));
            single = true;
            maybe_snap(true);
            if (s.chance(80))
            {
                int rr = s.coin() ? va::ROUTE_BASIC : va::ROUTE_CARVE;
                ops.push_back(op_mst(s.coin() ? va::MST_BORUVKA : va::MST_KRUSKAL, rr));
                pi.has_basic = rr == va::ROUTE_BASIC;
                pi.has_carve = rr == va::ROUTE_CARVE;
            }
        }
        pi.final_multi = !single;
        if (pinfo)
            *pinfo = pi;
        return ops;
    }

    // inverse of the receiver table: donors (with multiplicity), self links excluded
    inline std::vector<std::vector<size_t>> model_donors(const GraphState& st)
    {
        std::vector<std::vector<size_t>> d(st.n);
        for (size_t j = 0; j < st.n; ++j)
            for (size_t k = 0; k < st.rec_count[j]; ++k)
                if (R(st, j, k) != j)
                    d[R(st, j, k)].push_back(j);
        return d;
    }

    inline std::string label_prog(const std::vector<OpSpec>& ops)
    {
        std::string r;
        for (auto& o : ops)
            r += "SMPTN"[o.kind];
        return r;
    }
}

namespace vf
{
    // bitwise comparison of two graph states up to the counts (cells beyond are not state)
    inline std::string cmp_upto_counts(const GraphState& a, const GraphState& b, bool compare_donors)
    {
        if (a.n != b.n)
            return "size";
        for (size_t i = 0; i < a.n; ++i)
        {
            if (a.rec_count[i] != b.rec_count[i])
                return "receivers_count of node " + std::to_string(i) + ": first " + std::to_string(a.rec_count[i]) + " second " + std::to_string(b.rec_count[i]);
            if (a.rec_count[i] > a.rcols || b.rec_count[i] > b.rcols)
                return "receivers_count of node " + std::to_string(i) + " exceeds the table width";
            for (size_t k = 0; k < a.rec_count[i]; ++k)
            {
                if (R(a, i, k) != R(b, i, k))
                    return "receiver " + std::to_string(k) + " of node " + std::to_string(i) + ": first " + std::to_string(R(a, i, k)) + " second " + std::to_string(R(b, i, k));
                if (!vg::biteq(D(a, i, k), D(b, i, k)))
                    return "receiver distance of node " + std::to_string(i);
                if (!vg::biteq(W(a, i, k), W(b, i, k)))
                    return "receiver weight of node " + std::to_string(i) + ": first " + vg::fmt(W(a, i, k)) + " second " + vg::fmt(W(b, i, k));
            }
            if (a.don_count[i] != b.don_count[i])
                return "donors_count of node " + std::to_string(i) + ": first " + std::to_string(a.don_count[i]) + " second " + std::to_string(b.don_count[i]);
            if (compare_donors)
            {
                if (a.don_count[i] > a.dcols)
                    return "donors_count exceeds the table width";
                for (size_t k = 0; k < a.don_count[i]; ++k)
                    if (DON(a, i, k) != DON(b, i, k))
                        return "donor " + std::to_string(k) + " of node " + std::to_string(i) + ": first " + std::to_string(DON(a, i, k)) + " second " + std::to_string(DON(b, i, k));
            }
        }
        if (a.dfs != b.dfs)
            return "dfs_indices";
        if (a.bfs != b.bfs)
            return "bfs_indices";
        if (a.levels != b.levels)
            return "bfs_levels";
        return "";
    }
}

namespace vf
{
    // Between two updates of the same graph: new base levels and/or a new mask (base levels stay
    // unmasked and non-empty), returns a description of what was changed.
    inline std::string mutate_settings(vg::Src& s, FlowCase& fc, va::IGraph& g, bool every_component)
    {
        std::string what;
        size_t n = fc.m.n;
        size_t kind = s.weighted({ 100, 80, 40, 36 });  // nothing, base levels, mask, both
        if (kind == 2 || kind == 3)
        {
            auto mk = vg::gen_mask(s, fc.m);
            if (mk.empty())
                mk.assign(n, 0);
            fc.mask = mk;
            g.set_mask(mk);
            what += " set_mask(" + vg::describe_mask(mk) + ")";
        }
        // a new mask may cover base levels: they stay in the set (masked nodes are not part of the
        // flow graph and count for nothing - and count again once a later mask uncovers them:
        // seeded change C05-F) unless no unmasked base level is left, or the caller's domain wants
        // a base level in every unmasked component
        bool need_bl = kind == 1 || kind == 3;
        if (kind == 2)
        {
            bool any_unmasked = false;
            for (auto b : fc.bl)
                if (!fc.masked(b))
                    any_unmasked = true;
            if (!any_unmasked || every_component)
                need_bl = true;
        }
        if (need_bl)
        {
            vg::BaseInfo bi;
            std::vector<size_t> nbl;
            if (kind == 1 && s.coin() && fc.bl.size() < n)
            {
                // same number of base levels at other nodes (a cached size would not notice)
                std::vector<size_t> cand;
                for (size_t i = 0; i < n; ++i)
                    if (!fc.masked(i) && !fc.isbase[i])
                        cand.push_back(i);
                nbl.clear();
                for (size_t k = 0; k < fc.bl.size() && !cand.empty(); ++k)
                {
                    size_t j = s.range(0, cand.size() - 1);
                    nbl.push_back(cand[j]);
                    cand.erase(cand.begin() + static_cast<long>(j));
                }
                std::sort(nbl.begin(), nbl.end());
                if (nbl.empty())
                    nbl = vg::gen_base_levels(s, fc.m, fc.mask, every_component, &bi);
                else if (every_component)
                {
                    auto reach = vg::reach_from(fc.m, fc.mask, nbl);
                    for (size_t i = 0; i < n; ++i)
                        if (!fc.masked(i) && !reach[i])
                        {
                            nbl.push_back(i);
                            reach = vg::reach_from(fc.m, fc.mask, nbl);
                        }
                    std::sort(nbl.begin(), nbl.end());
                }
            }
            else
                nbl = vg::gen_base_levels(s, fc.m, fc.mask, every_component, &bi);
            fc.bl = nbl;
            fc.bi.is_explicit = true;
            g.set_base_levels(scrambled(nbl));
            what += " set_base_levels(" + vg::describe_set(nbl) + ")";
        }
        if (s.chance(30))
        {
            // a refused call: a mask of another shape is rejected with an error and must leave the
            // graph's mask as it was (seeded changes C04-G / C05-H install it before they throw)
            bool threw = false;
            try
            {
                g.set_mask_bad_shape();
            }
            catch (const std::exception&)
            {
                threw = true;
            }
            if (threw)
                what += " set_mask(wrong shape: refused)";
            else
            {
                // accepted: no statement says what a mask of another shape means (nor that it must
                // be refused) - put the known mask back and go on
                if (fc.mask.empty())
                    fc.mask.assign(n, 0);
                g.set_mask(fc.mask);
                what += " set_mask(wrong shape: accepted, mask set again)";
            }
        }
        finish_case(fc);
        return what;
    }
}
