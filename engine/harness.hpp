// Driver shared by all property binaries.
//
// A property TU defines:
//     static const char* PROPERTY_ID = "Cxx";
//     static void check_case(vg::Src& s, vh::Ctx& c);
// and includes this header last.  Modes:
//     --rc --seed S --n N --max-size M --scale K --out F [--known a,b] [--size-arg X]
//     --replay FILE [--known a,b]        (exit 0 pass / 1 violation / 2 discard)
//     --enum --out F                      (optional exhaustive enumeration, if defined)
// With -DVH_FUZZ the same check is exposed as a libFuzzer target.
#pragma once
#include <chrono>
#include <csignal>
#include <unistd.h>
#include <cstdio>
#include <cstdlib>
#include <fstream>
#include <iostream>
#include <map>
#include <set>
#include <sstream>
#include <string>
#include <unordered_set>
#include <vector>

#include "src.hpp"

namespace vh
{
    struct Violation
    {
        std::string kind, detail;
    };
    struct Discard
    {
        std::string reason;
    };

    struct Ctx
    {
        std::string desc;         // decoded human-readable case
        std::string canon;        // canonical text for distinctness (defaults to desc)
        bool nontrivial = false;  // by the property's stated rule
        std::vector<std::string> labels;
        std::set<std::string> known;               // matchers listed as `known` findings
        std::map<std::string, long> known_hits;    // matcher -> occurrences in this case
        long arg = 0;                              // --size-arg (tier-dependent knob)
        bool verbose = false;

        bool announced = false;
        // replay mode: print the decoded case before the library is called, so that it is
        // visible even if the call crashes or never returns
        void announce()
        {
            if (verbose && !announced)
            {
                std::cout << "CASE " << desc << std::endl;
                announced = true;
            }
        }
        void label(const std::string& l)
        {
            labels.push_back(l);
        }
        [[noreturn]] void fail(const std::string& kind, const std::string& detail)
        {
            throw Violation{ kind, detail };
        }
        void expect(bool ok, const std::string& kind, const std::string& detail)
        {
            if (!ok)
                fail(kind, detail);
        }
        // A failure recognised by a named matcher: excluded (and counted) when the matcher
        // is a listed known finding, a violation otherwise.  Returns true when excluded.
        bool fail_matched(const std::string& matcher, const std::string& kind, const std::string& detail)
        {
            if (known.count(matcher))
            {
                known_hits[matcher]++;
                return true;
            }
            throw Violation{ kind + "[" + matcher + "]", detail };
        }
        [[noreturn]] void discard(const std::string& reason)
        {
            throw Discard{ reason };
        }
    };

    inline std::string jesc(const std::string& s)
    {
        std::string o;
        for (unsigned char c : s)
        {
            switch (c)
            {
                case '"':
                    o += "\\\"";
                    break;
                case '\\':
                    o += "\\\\";
                    break;
                case '\n':
                    o += "\\n";
                    break;
                case '\t':
                    o += "\\t";
                    break;
                default:
                    if (c < 0x20)
                    {
                        char b[8];
                        snprintf(b, sizeof b, "\\u%04x", c);
                        o += b;
                    }
                    else
                        o += static_cast<char>(c);
            }
        }
        return o;
    }
    inline std::string hex(const std::vector<uint8_t>& v)
    {
        static const char* h = "0123456789abcdef";
        std::string o;
        for (auto b : v)
        {
            o += h[b >> 4];
            o += h[b & 15];
        }
        return o;
    }

    struct Stats
    {
        long evaluations = 0, passed = 0, nontrivial = 0, discards = 0;
        std::map<std::string, long> labels, discard_reasons, known_excluded;
        std::unordered_set<uint64_t> nt_hashes, all_hashes;
        std::vector<std::string> samples;
        bool frozen = false;
        // violation
        bool violated = false;
        std::string v_kind, v_detail, v_desc;
        std::vector<uint8_t> v_bytes;
        long shrink_steps = 0;
    };

    inline Stats& stats()
    {
        static Stats* s = new Stats;  // never destroyed: used from atexit handlers
        return *s;
    }

    inline void write_file(const std::string& path, const std::vector<uint8_t>& bytes)
    {
        FILE* f = fopen(path.c_str(), "wb");
        if (!f)
            return;
        if (!bytes.empty())
            fwrite(bytes.data(), 1, bytes.size(), f);
        fclose(f);
    }
    inline std::vector<uint8_t> read_file(const std::string& path)
    {
        std::vector<uint8_t> v;
        FILE* f = fopen(path.c_str(), "rb");
        if (!f)
            return v;
        uint8_t buf[4096];
        size_t k;
        while ((k = fread(buf, 1, sizeof buf, f)) > 0)
            v.insert(v.end(), buf, buf + k);
        fclose(f);
        return v;
    }

    inline void dump_stats(const std::string& path, const char* pid, double wall, const std::string& mode, long long seed)
    {
        Stats& st = stats();
        std::ostringstream o;
        o << "{\n \"property_id\": \"" << pid << "\",\n \"mode\": \"" << mode << "\",\n \"seed\": " << seed
          << ",\n \"evaluations\": " << st.evaluations << ",\n \"passed\": " << st.passed
          << ",\n \"nontrivial\": " << st.nontrivial << ",\n \"discards\": " << st.discards << ",\n \"wall_s\": " << wall
          << ",\n \"distinct_all\": " << st.all_hashes.size() << ",\n \"labels\": {";
        bool first = true;
        for (auto& [k, v] : st.labels)
        {
            o << (first ? "" : ",") << "\"" << jesc(k) << "\": " << v;
            first = false;
        }
        o << "},\n \"discard_reasons\": {";
        first = true;
        for (auto& [k, v] : st.discard_reasons)
        {
            o << (first ? "" : ",") << "\"" << jesc(k) << "\": " << v;
            first = false;
        }
        o << "},\n \"known_excluded\": {";
        first = true;
        for (auto& [k, v] : st.known_excluded)
        {
            o << (first ? "" : ",") << "\"" << jesc(k) << "\": " << v;
            first = false;
        }
        o << "},\n \"nt_hashes\": [";
        first = true;
        for (auto h : st.nt_hashes)
        {
            char b[24];
            snprintf(b, sizeof b, "\"%016llx\"", static_cast<unsigned long long>(h));
            o << (first ? "" : ",") << b;
            first = false;
        }
        o << "],\n \"samples\": [";
        first = true;
        for (auto& s : st.samples)
        {
            o << (first ? "" : ",") << "\n  \"" << jesc(s) << "\"";
            first = false;
        }
        o << "],\n \"violation\": ";
        if (st.violated)
        {
            o << "{\"kind\": \"" << jesc(st.v_kind) << "\", \"detail\": \"" << jesc(st.v_detail) << "\", \"desc\": \""
              << jesc(st.v_desc) << "\", \"bytes_hex\": \"" << hex(st.v_bytes) << "\", \"shrink_steps\": " << st.shrink_steps << "}";
        }
        else
            o << "null";
        o << "\n}\n";
        std::ofstream f(path);
        f << o.str();
    }

    enum Outcome
    {
        PASS = 0,
        VIOL = 1,
        DISC = 2
    };
}

// provided by the property TU
static void check_case(vg::Src& s, vh::Ctx& c);
#ifdef VH_HAS_ENUM
static size_t enum_count();
static std::vector<uint8_t> enum_case(size_t k);
#endif

namespace vh
{
    struct RunCfg
    {
        std::set<std::string> known;
        long arg = 0;
        std::string current_path;
        unsigned case_timeout = 0;  // seconds; 0 = no watchdog
    };
    // A single small case normally takes milliseconds.  A case that is still running after
    // `case_timeout` seconds ends the process with exit code 88 ("hang candidate"); the runner
    // re-runs the saved input in fresh processes before anything is reported.
    inline void on_case_alarm(int)
    {
        static const char msg[] = "\nCASE-TIMEOUT: the current case did not return within the watchdog limit\n";
        ssize_t r = write(2, msg, sizeof msg - 1);
        (void) r;
        _exit(88);
    }
    inline RunCfg& cfg()
    {
        static RunCfg* c = new RunCfg;
        return *c;
    }

    // Runs one case, updates statistics; returns the outcome.
    inline bool& replay_verbose()
    {
        static bool v = false;
        return v;
    }
    inline Outcome run_one(const std::vector<uint8_t>& bytes, Ctx& c, bool count)
    {
        Stats& st = stats();
        c.verbose = replay_verbose();
        c.known = cfg().known;
        c.arg = cfg().arg;
        if (!cfg().current_path.empty())
            write_file(cfg().current_path, bytes);
        vg::Src src(bytes);
        Outcome out = PASS;
        if (cfg().case_timeout)
        {
            signal(SIGALRM, on_case_alarm);
            alarm(cfg().case_timeout);
        }
        try
        {
            check_case(src, c);
        }
        catch (const Violation& v)
        {
            out = VIOL;
            st.v_kind = v.kind;
            st.v_detail = v.detail;
        }
        catch (const Discard& d)
        {
            out = DISC;
            if (count && !st.frozen)
                st.discard_reasons[d.reason]++;
        }
        catch (const std::exception& e)
        {
            // an exception the property did not expect at the call that threw it
            out = VIOL;
            st.v_kind = "unexpected-exception";
            st.v_detail = e.what();
        }
        if (cfg().case_timeout)
            alarm(0);
        if (src.exhausted > 0)
            c.labels.push_back("byte-buffer-exhausted(zeros drawn)");
        if (count && !st.frozen)
        {
            st.evaluations++;
            if (out == DISC)
                st.discards++;
            for (auto& [k, v] : c.known_hits)
                st.known_excluded[k] += v;
            if (out == PASS)
            {
                st.passed++;
                for (auto& l : c.labels)
                    st.labels[l]++;
                const std::string& canon = c.canon.empty() ? c.desc : c.canon;
                uint64_t h = vg::fnv(canon);
                st.all_hashes.insert(h);
                if (c.nontrivial)
                {
                    st.nontrivial++;
                    bool fresh = st.nt_hashes.insert(h).second;
                    // keep a spread of samples: 1st, 2nd, 4th, 8th ... distinct non-trivial case
                    size_t k = st.nt_hashes.size();
                    if (fresh && (k & (k - 1)) == 0 && st.samples.size() < 12)
                        st.samples.push_back(c.desc.size() > 1500 ? c.desc.substr(0, 1500) + "..." : c.desc);
                }
            }
        }
        if (out == VIOL)
        {
            st.v_desc = c.desc;
            st.v_bytes = bytes;
        }
        return out;
    }
}

#ifndef VH_FUZZ
#include <rapidcheck.h>

namespace vh
{
    inline int main_impl(int argc, char** argv, const char* pid)
    {
        std::string mode, out, replay;
        long long seed = 1;
        long n = 1000, max_size = 100, scale = 20;
        double shrink_budget = 40;
        long enum_from = 0, enum_to = -1;
        (void) enum_from;
        (void) enum_to;
        for (int i = 1; i < argc; ++i)
        {
            std::string a = argv[i];
            auto next = [&]() -> std::string { return i + 1 < argc ? argv[++i] : ""; };
            if (a == "--rc")
                mode = "rc";
            else if (a == "--enum")
                mode = "enum";
            else if (a == "--enum-count")
                mode = "enum-count";
            else if (a == "--from")
                enum_from = atol(next().c_str());
            else if (a == "--to")
                enum_to = atol(next().c_str());
            else if (a == "--replay")
            {
                mode = "replay";
                replay = next();
            }
            else if (a == "--seed")
                seed = atoll(next().c_str());
            else if (a == "--n")
                n = atol(next().c_str());
            else if (a == "--max-size")
                max_size = atol(next().c_str());
            else if (a == "--scale")
                scale = atol(next().c_str());
            else if (a == "--out")
                out = next();
            else if (a == "--size-arg")
                cfg().arg = atol(next().c_str());
            else if (a == "--shrink-budget")
                shrink_budget = atof(next().c_str());
            else if (a == "--case-timeout")
                cfg().case_timeout = static_cast<unsigned>(atol(next().c_str()));
            else if (a == "--known")
            {
                std::stringstream ss(next());
                std::string tok;
                while (std::getline(ss, tok, ','))
                    if (!tok.empty())
                        cfg().known.insert(tok);
            }
        }
        auto t0 = std::chrono::steady_clock::now();
        auto wall = [&]() { return std::chrono::duration<double>(std::chrono::steady_clock::now() - t0).count(); };
        if (mode == "replay")
        {
            auto bytes = read_file(replay);
            Ctx c;
            replay_verbose() = true;
            Outcome o = run_one(bytes, c, true);
            if (!c.announced)
                std::cout << "CASE " << c.desc << "\n";
            for (auto& [k, v] : c.known_hits)
                std::cout << "KNOWN-MATCH " << k << " x" << v << "\n";
            if (o == VIOL)
                std::cout << "RESULT violation kind=" << stats().v_kind << " detail=" << stats().v_detail << "\n";
            else if (o == DISC)
                std::cout << "RESULT discard\n";
            else
                std::cout << "RESULT pass nontrivial=" << c.nontrivial << "\n";
            if (!out.empty())
                dump_stats(out, pid, wall(), "replay", seed);
            return o == VIOL ? 1 : (o == DISC ? 2 : 0);
        }
        if (mode == "rc")
        {
            if (!out.empty())
                cfg().current_path = out + ".current";
            rc::detail::TestParams params;
            params.seed = static_cast<uint64_t>(seed);
            params.maxSuccess = static_cast<int>(n);
            params.maxSize = static_cast<int>(max_size);
            params.maxDiscardRatio = 20;
            rc::detail::TestMetadata md;
            md.id = pid;
            md.description = pid;
            Stats& st = stats();
            std::vector<uint8_t> last_fail;
            bool have_fail = false;
            double first_fail_at = 0;
            std::string lf_kind, lf_detail, lf_desc;
            const int sc = static_cast<int>(scale);
            auto result = rc::detail::checkTestable(
                [&]()
                {
                    // bytes uniform over 0..255 at every size (rapidcheck's integers use fewer bits
                    // at small sizes, which would skew every weighted choice towards its first
                    // alternatives); the LENGTH of the buffer still grows with the size
                    auto bytes = *rc::gen::scale(static_cast<double>(sc),
                                                 rc::gen::container<std::vector<uint8_t>>(rc::gen::resize(rc::kNominalSize, rc::gen::arbitrary<uint8_t>())));
                    // bounded shrinking: once the budget is used up every further candidate is
                    // accepted as "passing", which ends the shrink search at the current minimum
                    if (st.frozen && wall() - first_fail_at > shrink_budget)
                        return;
                    Ctx c;
                    Outcome o = run_one(bytes, c, true);
                    // checkpoint: a shard that is killed later (sanitizer abort, stopwatch) still
                    // reports what it explored up to that point
                    if (!out.empty() && !st.frozen && st.evaluations % 512 == 0)
                        dump_stats(out, pid, wall(), "rc", seed);
                    if (o == DISC)
                        RC_DISCARD("discard");
                    if (o == VIOL)
                    {
                        if (st.frozen)
                            st.shrink_steps++;
                        else
                            first_fail_at = wall();
                        st.frozen = true;  // statistics stop at the first failure (shrinking follows)
                        last_fail = bytes;
                        have_fail = true;
                        lf_kind = st.v_kind;
                        lf_detail = st.v_detail;
                        lf_desc = c.desc;
                        RC_FAIL(st.v_kind);
                    }
                },
                md,
                params);
            bool ok = result.template is<rc::detail::SuccessResult>();
            if (!ok && have_fail)
            {
                st.violated = true;
                st.v_bytes = last_fail;
                st.v_kind = lf_kind;
                st.v_detail = lf_detail;
                st.v_desc = lf_desc;
            }
            else if (!ok)
            {
                // gave up (too many discards) or generation failure: not a violation
                std::ostringstream os;
                rc::detail::printResultMessage(result, os);
                st.discard_reasons["rapidcheck: " + os.str().substr(0, 200)]++;
            }
            if (!out.empty())
            {
                dump_stats(out, pid, wall(), "rc", seed);
                remove((out + ".current").c_str());
            }
            return st.violated ? 1 : 0;
        }
#ifdef VH_HAS_ENUM
        if (mode == "enum-count")
        {
            std::cout << enum_count() << "\n";
            return 0;
        }
        if (mode == "enum")
        {
            // complete enumeration of a finite sub-space (cases k = from .. to-1)
            if (!out.empty())
                cfg().current_path = out + ".current";
            Stats& st = stats();
            size_t total = enum_count();
            size_t from = static_cast<size_t>(enum_from), to = enum_to < 0 ? total : std::min<size_t>(total, static_cast<size_t>(enum_to));
            // A failing case is re-run twice at once.  3/3 = a stable reproducer: stop (for the
            // deterministic properties this is the first failure, as before).  Fewer (possible
            // only where a thread schedule takes part): keep the most stable one seen so far and
            // go on - another case of the slice may be the deterministic reproducer of the same
            // fault (seeded change C11-E: flaky under several order constraints, certain under one).
            int best = 0;
            std::string b_kind, b_detail, b_desc;
            std::vector<uint8_t> b_bytes;
            for (size_t k = from; k < to && best < 3; ++k)
            {
                auto bytes = enum_case(k);
                Ctx c;
                Outcome o = run_one(bytes, c, true);
                if (o != VIOL)
                    continue;
                std::string kind = st.v_kind, detail = st.v_detail, desc = st.v_desc;
                int fails = 1;
                for (int rep = 0; rep < 2; ++rep)
                {
                    Ctx c2;
                    if (run_one(bytes, c2, false) == VIOL)
                        ++fails;
                }
                if (fails > best)
                {
                    best = fails;
                    b_kind = kind;
                    b_detail = detail + " [failed " + std::to_string(fails) + " of 3 immediate runs]";
                    b_desc = desc;
                    b_bytes = bytes;
                }
            }
            if (best > 0)
            {
                st.violated = true;
                st.v_kind = b_kind;
                st.v_detail = b_detail;
                st.v_desc = b_desc;
                st.v_bytes = b_bytes;
            }
            if (!out.empty())
            {
                dump_stats(out, pid, wall(), "enum", seed);
                remove((out + ".current").c_str());
            }
            return st.violated ? 1 : 0;
        }
#endif
        std::cerr << "usage: --rc ... | --replay FILE\n";
        return 64;
    }
}

int main(int argc, char** argv)
{
    return vh::main_impl(argc, argv, PROPERTY_ID);
}

#else  // VH_FUZZ -------------------------------------------------------------------------

#include <unistd.h>

namespace vh
{
    inline std::string& fuzz_out()
    {
        static std::string* p = new std::string;
        return *p;
    }
    inline void fuzz_atexit()
    {
        if (!fuzz_out().empty())
            dump_stats(fuzz_out(), PROPERTY_ID, 0, "fuzz", 0);
    }
}

extern "C" int LLVMFuzzerInitialize(int*, char***)
{
    if (const char* o = getenv("VH_FUZZ_OUT"))
        vh::fuzz_out() = o;
    if (const char* k = getenv("VH_KNOWN"))
    {
        std::stringstream ss(k);
        std::string tok;
        while (std::getline(ss, tok, ','))
            if (!tok.empty())
                vh::cfg().known.insert(tok);
    }
    if (const char* a = getenv("VH_SIZE_ARG"))
        vh::cfg().arg = atol(a);
    atexit(vh::fuzz_atexit);
    return 0;
}

extern "C" int LLVMFuzzerTestOneInput(const uint8_t* data, size_t size)
{
    std::vector<uint8_t> bytes(data, data + size);
    vh::Ctx c;
    vh::Outcome o = vh::run_one(bytes, c, true);
    if (o == vh::VIOL)
    {
        vh::Stats& st = vh::stats();
        st.violated = true;
        fprintf(stderr, "\nFUZZ-VIOLATION kind=%s detail=%s\nCASE %s\n", st.v_kind.c_str(), st.v_detail.c_str(), c.desc.c_str());
        vh::fuzz_atexit();
        __builtin_trap();
    }
    return 0;
}
#endif
