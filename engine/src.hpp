// Byte source: every random choice of a case is drawn from one byte buffer.
// An exhausted buffer yields 0, and decoders are written so that 0 is the
// simplest choice -- byte-level shrinking (delete chunks, lower bytes) then
// produces simpler cases.
#pragma once
#include <cmath>
#include <cstddef>
#include <cstdint>
#include <cstring>
#include <initializer_list>
#include <limits>
#include <string>
#include <vector>

namespace vg
{
    struct Src
    {
        const uint8_t* d;
        size_t n;
        size_t pos = 0;
        size_t exhausted = 0;
        Src(const uint8_t* data, size_t size)
            : d(data)
            , n(size)
        {
        }
        explicit Src(const std::vector<uint8_t>& v)
            : d(v.data())
            , n(v.size())
        {
        }
        uint8_t u8()
        {
            if (pos < n)
                return d[pos++];
            ++exhausted;
            return 0;
        }
        uint32_t u16()
        {
            uint32_t a = u8();
            uint32_t b = u8();
            return a | (b << 8);
        }
        uint64_t u64()
        {
            uint64_t r = 0;
            for (int i = 0; i < 8; ++i)
                r |= static_cast<uint64_t>(u8()) << (8 * i);
            return r;
        }
        // inclusive range
        size_t range(size_t lo, size_t hi)
        {
            if (hi <= lo)
                return lo;
            size_t span = hi - lo + 1;
            if (span <= 256)
                return lo + u8() % span;
            return lo + u16() % span;
        }
        // true with probability ~ num/256 ; byte 0 -> false
        bool chance(unsigned num)
        {
            return u8() > 255 - num;
        }
        bool coin()
        {
            return (u8() & 1) != 0;
        }
        // index drawn with the given weights (sum <= 256 recommended); byte 0 -> index 0
        size_t weighted(std::initializer_list<unsigned> w)
        {
            unsigned total = 0;
            for (auto x : w)
                total += x;
            if (total == 0)
                return 0;
            unsigned b = total <= 256 ? u8() % total : u16() % total;
            size_t i = 0;
            for (auto x : w)
            {
                if (b < x)
                    return i;
                b -= x;
                ++i;
            }
            return 0;
        }
        template <class T>
        const T& pick(const std::vector<T>& v)
        {
            return v[range(0, v.size() - 1)];
        }
        // uniform in [0,1) with 16 bits
        double unit()
        {
            return static_cast<double>(u16()) / 65536.0;
        }
        size_t remaining() const
        {
            return pos < n ? n - pos : 0;
        }
    };

    // ordered-integer image of a double (monotone; +0 and -0 coincide)
    inline int64_t ord(double d)
    {
        int64_t i;
        std::memcpy(&i, &d, 8);
        return i < 0 ? std::numeric_limits<int64_t>::min() - i : i;
    }
    inline int64_t ulpdist(double a, double b)  // ord(b) - ord(a), saturating
    {
        __int128 d = static_cast<__int128>(ord(b)) - static_cast<__int128>(ord(a));
        if (d > std::numeric_limits<int64_t>::max())
            return std::numeric_limits<int64_t>::max();
        if (d < std::numeric_limits<int64_t>::min())
            return std::numeric_limits<int64_t>::min();
        return static_cast<int64_t>(d);
    }
    inline bool biteq(double a, double b)
    {
        return std::memcmp(&a, &b, 8) == 0;
    }
    inline bool same_value(double a, double b)  // bitwise, but +0 == -0 is not accepted
    {
        return biteq(a, b);
    }

    // 64-bit FNV-1a over canonical text of a decoded case
    inline uint64_t fnv(const std::string& s, uint64_t h = 1469598103934665603ULL)
    {
        for (unsigned char c : s)
        {
            h ^= c;
            h *= 1099511628211ULL;
        }
        return h;
    }

    inline std::string fmt(double v)
    {
        char buf[40];
        snprintf(buf, sizeof buf, "%.17g", v);
        return buf;
    }
}
